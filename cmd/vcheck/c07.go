package main

import (
	"fmt"
	"math/rand"
	"os"
	"os/exec"
	"path/filepath"
	"regexp"
	"sort"
	"strings"
	"sync"
	"time"

	"verif/internal/grun"
	"verif/internal/pgen"
	"verif/internal/report"
)

func init() { register("C07", "fault_enumeration", checkC07) }

// hProg is a small structured program model for edit histories.
type hField struct{ Name, Type string }
type hType struct {
	Name   string
	Fields []hField
}
type hCall struct {
	Kind string // equal hash compare clone gostring deepcopy keys sortkeys fmapkeys contains unique min
	Name string // suffix of the derive function name
	Arg  string // type expression
	// InTest: the call sits in p_test.go (in-package test file) instead of p.go
	InTest bool
}

// hTestSep separates the p.go part of a rendered program from its p_test.go part (if any).
const hTestSep = "\n//==== p_test.go ====\n"

// c07Tree turns a rendered program into the files of module "scratch".
func c07Tree(prefix, src string) map[string]string {
	files := map[string]string{prefix + "go.mod": pgen.GoMod}
	if i := strings.Index(src, hTestSep); i >= 0 {
		files[prefix+"p/p.go"] = src[:i]
		files[prefix+"p/p_test.go"] = src[i+len(hTestSep):]
	} else {
		files[prefix+"p/p.go"] = src
	}
	return files
}

// c07Compiles type-checks the package, with its in-package test file when there is one.
func (c *Ctx) c07Compiles(dir, src string) bool {
	if strings.Contains(src, hTestSep) {
		return c.Go(dir, "vet", "./p").Exit == 0
	}
	return c.Go(dir, "build", "./p").Exit == 0
}

type hProg struct {
	Types []hType
	Calls []hCall
}

func (p hProg) clone() hProg {
	q := hProg{}
	for _, t := range p.Types {
		q.Types = append(q.Types, hType{t.Name, append([]hField{}, t.Fields...)})
	}
	q.Calls = append([]hCall{}, p.Calls...)
	return q
}

func (p hProg) render() string {
	var sb strings.Builder
	sb.WriteString("package p\n\n")
	for _, t := range p.Types {
		fmt.Fprintf(&sb, "type %s struct {\n", t.Name)
		for _, f := range t.Fields {
			fmt.Fprintf(&sb, "\t%s %s\n", f.Name, f.Type)
		}
		sb.WriteString("}\n\n")
	}
	var main, test strings.Builder
	for i, c := range p.Calls {
		T := c.Arg
		sb := &main
		if c.InTest {
			sb = &test
		}
		switch c.Kind {
		case "equal":
			fmt.Fprintf(sb, "func use%d(a, b %s) bool { return deriveEqual%s(a, b) }\n\n", i, T, c.Name)
		case "hash":
			fmt.Fprintf(sb, "func use%d(a %s) uint64 { return deriveHash%s(a) }\n\n", i, T, c.Name)
		case "compare":
			fmt.Fprintf(sb, "func use%d(a, b %s) int { return deriveCompare%s(a, b) }\n\n", i, T, c.Name)
		case "clone":
			fmt.Fprintf(sb, "func use%d(a %s) %s { return deriveClone%s(a) }\n\n", i, T, T, c.Name)
		case "gostring":
			fmt.Fprintf(sb, "func use%d(a %s) string { return deriveGoString%s(a) }\n\n", i, T, c.Name)
		case "deepcopy":
			fmt.Fprintf(sb, "func use%d(a, b %s) { deriveDeepCopy%s(a, b) }\n\n", i, T, c.Name)
		case "keys": // Arg is a map type
			fmt.Fprintf(sb, "func use%d(m %s) int { return len(deriveKeys%s(m)) }\n\n", i, T, c.Name)
		case "sortkeys": // the result type of the inner call flows into the outer call
			fmt.Fprintf(sb, "func use%d(m %s) int { return len(deriveSort%s(deriveKeys%s(m))) }\n\n", i, T, c.Name, c.Name)
		case "fmapkeys":
			fmt.Fprintf(sb, "func use%d(m %s) int { return len(deriveFmap%s(func(k %s) bool { return true }, deriveKeys%s(m))) }\n\n", i, T, c.Name, mapKeyOf(T), c.Name)
		case "equalhash": // one call, or (Name ending in "+") two calls of different plugins on ONE source line
			if strings.HasSuffix(c.Name, "+") {
				// the second call is of the SAME plugin over another type (the order of the functions of one
				// plugin in the file follows the order in which the calls are registered), plus one of another plugin
				n := strings.TrimSuffix(c.Name, "+")
				T2 := T
				for _, a := range p.structArgs() {
					if a != T {
						T2 = a
						break
					}
				}
				fmt.Fprintf(sb, "func use%d(a, b %s, c, d %s) bool { return deriveEqual%s(a, b) && deriveEqual%sOther(c, d) && deriveHash%s(a) == deriveHash%s(b) }\n\n", i, T, T2, n, n, n, n)
			} else {
				fmt.Fprintf(sb, "func use%d(a, b %s) bool { return deriveEqual%s(a, b) }\n\n", i, T, c.Name)
			}
		case "deepchain": // four derive calls deep: every level only types after the one below it was generated
			fmt.Fprintf(sb, "func use%d(m %s) int { return len(deriveUnique%s(deriveSort%s(deriveFmap%s(func(k %s) %s { return k }, deriveKeys%s(m))))) }\n\n", i, T, c.Name, c.Name, c.Name, mapKeyOf(T), mapKeyOf(T), c.Name)
		case "curryflow": // the value flowing from the inner to the outer derive call is a FUNCTION over a program type
			fmt.Fprintf(sb, "func fn%d(x %s, n int) int { return n }\n\nfunc use%d() func(%s, int) int { return deriveUncurry%s(deriveCurry%s(fn%d)) }\n\n", i, T, i, T, c.Name, c.Name, i)
		case "contains":
			fmt.Fprintf(sb, "func use%d(l []%s, x %s) bool { return deriveContains%s(l, x) }\n\n", i, T, T, c.Name)
		case "unique":
			fmt.Fprintf(sb, "func use%d(l []%s) []%s { return deriveUnique%s(l) }\n\n", i, T, T, c.Name)
		case "min":
			fmt.Fprintf(sb, "func use%d(l []%s, d %s) %s { return deriveMin%s(l, d) }\n\n", i, T, T, T, c.Name)
		}
	}
	if test.Len() > 0 {
		return sb.String() + main.String() + hTestSep + "package p\n\n" + test.String()
	}
	return sb.String() + main.String()
}

func mapKeyOf(t string) string {
	// "map[K]V" with K free of brackets
	i := strings.IndexByte(t, ']')
	return t[4:i]
}

var hFieldTypes = []string{"int", "string", "[]int", "*int", "map[string]int", "[]string", "float64", "[2]bool", "map[int]string", "*string", "[]byte", "uint8", "bool", "[]*int"}
var hMapTypes = []string{"map[string]int", "map[int]string", "map[int]bool", "map[string][]int", "map[int64]string", "map[string]*int"}

func (p hProg) structArgs() []string {
	var out []string
	for _, t := range p.Types {
		out = append(out, "*"+t.Name)
	}
	return out
}

func randCall(r *rand.Rand, p hProg, seq *int) hCall {
	c := randCall0(r, p, seq)
	c.InTest = r.Intn(5) == 0
	return c
}

func randCall0(r *rand.Rand, p hProg, seq *int) hCall {
	*seq++
	name := fmt.Sprintf("N%d", *seq)
	switch k := r.Intn(12); {
	case k < 7:
		kind := []string{"equal", "hash", "compare", "clone", "gostring", "deepcopy", "equal"}[k]
		args := p.structArgs()
		if kind != "deepcopy" && r.Intn(3) == 0 {
			for _, t := range p.Types {
				args = append(args, "[]"+t.Name, "map[string]*"+t.Name)
			}
		}
		return hCall{Kind: kind, Name: name, Arg: args[r.Intn(len(args))]}
	case k < 10:
		if r.Intn(4) == 0 {
			if r.Intn(2) == 0 {
				return hCall{Kind: "deepchain", Name: name, Arg: hMapTypes[r.Intn(len(hMapTypes))]}
			}
			args := p.structArgs()
			return hCall{Kind: "curryflow", Name: name, Arg: args[r.Intn(len(args))]}
		}
		return hCall{Kind: []string{"keys", "sortkeys", "fmapkeys"}[k-7], Name: name, Arg: hMapTypes[r.Intn(len(hMapTypes))]}
	default:
		kind := []string{"contains", "unique", "min"}[r.Intn(3)]
		return hCall{Kind: kind, Name: name, Arg: p.Types[r.Intn(len(p.Types))].Name}
	}
}

func randProg(r *rand.Rand, seq *int) hProg {
	var p hProg
	nt := 2 + r.Intn(3)
	for i := 0; i < nt; i++ {
		t := hType{Name: fmt.Sprintf("T%d", i)}
		nf := 1 + r.Intn(4)
		for j := 0; j < nf; j++ {
			ft := hFieldTypes[r.Intn(len(hFieldTypes))]
			if i > 0 && r.Intn(4) == 0 {
				ft = []string{"*", "[]", ""}[r.Intn(3)] + fmt.Sprintf("T%d", r.Intn(i))
			}
			t.Fields = append(t.Fields, hField{fmt.Sprintf("F%d", j), ft})
		}
		p.Types = append(p.Types, t)
	}
	nc := 2 + r.Intn(4)
	for i := 0; i < nc; i++ {
		p.Calls = append(p.Calls, randCall(r, p, seq))
	}
	// every second program has a function-typed flow between two derive calls, every second a four-deep chain
	if r.Intn(2) == 0 {
		*seq++
		args := p.structArgs()
		p.Calls = append(p.Calls, hCall{Kind: "curryflow", Name: fmt.Sprintf("N%d", *seq), Arg: args[r.Intn(len(args))]})
	}
	if r.Intn(2) == 0 {
		*seq++
		p.Calls = append(p.Calls, hCall{Kind: "deepchain", Name: fmt.Sprintf("N%d", *seq), Arg: hMapTypes[r.Intn(len(hMapTypes))]})
	}
	return p.dedupCalls()
}

// dedupCalls keeps the program free of duplicates in goderive's sense (same plugin, same argument).
func (p hProg) dedupCalls() hProg {
	seen := map[string]bool{}
	var out []hCall
	for _, c := range p.Calls {
		keys := []string{c.Kind + "|" + c.Arg}
		switch c.Kind {
		case "sortkeys":
			keys = []string{"keys|" + c.Arg, "sort|" + mapKeyOf(c.Arg)}
		case "fmapkeys":
			keys = []string{"keys|" + c.Arg, "fmap|" + mapKeyOf(c.Arg)}
		case "equalhash":
			keys = []string{"equal|" + c.Arg}
			if strings.HasSuffix(c.Name, "+") {
				keys = append(keys, "hash|"+c.Arg)
				for _, a := range p.structArgs() {
					if a != c.Arg {
						keys = append(keys, "equal|"+a)
						break
					}
				}
			}
		case "deepchain":
			keys = []string{"keys|" + c.Arg, "fmap|" + mapKeyOf(c.Arg), "sort|" + mapKeyOf(c.Arg), "unique|" + mapKeyOf(c.Arg)}
		case "curryflow":
			keys = []string{"curry|" + c.Arg, "uncurry|" + c.Arg}
		}
		ok := true
		for _, k := range keys {
			if seen[k] {
				ok = false
			}
		}
		if !ok {
			continue
		}
		for _, k := range keys {
			seen[k] = true
		}
		out = append(out, c)
	}
	p.Calls = out
	return p
}

// edit applies one random edit operator and returns the operator's class.
func edit(r *rand.Rand, p hProg, seq *int) (hProg, string) {
	var q hProg
	for tries := 0; tries < 20; tries++ {
		q = p.clone()
		switch op := r.Intn(14); op {
		case 0: // retype a field
			t := &q.Types[r.Intn(len(q.Types))]
			f := &t.Fields[r.Intn(len(t.Fields))]
			nt := hFieldTypes[r.Intn(len(hFieldTypes))]
			if nt == f.Type {
				continue
			}
			f.Type = nt
			return q.dedupCalls(), "retype-field"
		case 1: // add a field
			t := &q.Types[r.Intn(len(q.Types))]
			t.Fields = append(t.Fields, hField{fmt.Sprintf("G%d", len(t.Fields)), hFieldTypes[r.Intn(len(hFieldTypes))]})
			return q.dedupCalls(), "add-field"
		case 2: // remove a field
			t := &q.Types[r.Intn(len(q.Types))]
			if len(t.Fields) < 2 {
				continue
			}
			i := r.Intn(len(t.Fields))
			t.Fields = append(t.Fields[:i], t.Fields[i+1:]...)
			return q.dedupCalls(), "remove-field"
		case 3: // add a call at a random position
			c := randCall(r, q, seq)
			i := r.Intn(len(q.Calls) + 1)
			q.Calls = append(q.Calls[:i], append([]hCall{c}, q.Calls[i:]...)...)
			q2 := q.dedupCalls()
			if len(q2.Calls) == len(p.Calls) {
				continue
			}
			return q2, "add-call"
		case 4: // remove a call
			if len(q.Calls) < 2 {
				continue
			}
			i := r.Intn(len(q.Calls))
			q.Calls = append(q.Calls[:i], q.Calls[i+1:]...)
			return q, "remove-call"
		case 5: // rename a call
			if len(q.Calls) == 0 {
				continue
			}
			*seq++
			q.Calls[r.Intn(len(q.Calls))].Name = fmt.Sprintf("R%d", *seq)
			return q, "rename-call"
		case 6: // switch a call to another plugin with the same argument
			var idx []int
			for i, c := range q.Calls {
				switch c.Kind {
				case "equal", "hash", "compare", "clone", "gostring":
					idx = append(idx, i)
				}
			}
			if len(idx) == 0 {
				continue
			}
			i := idx[r.Intn(len(idx))]
			nk := []string{"equal", "hash", "compare", "clone", "gostring"}[r.Intn(5)]
			if nk == q.Calls[i].Kind {
				continue
			}
			q.Calls[i].Kind = nk
			q2 := q.dedupCalls()
			if len(q2.Calls) != len(q.Calls) {
				continue
			}
			return q2, "switch-plugin"
		case 7: // change the type flowing from an inner derive call into an outer one
			var idx []int
			for i, c := range q.Calls {
				if c.Kind == "sortkeys" || c.Kind == "fmapkeys" || c.Kind == "deepchain" {
					idx = append(idx, i)
				}
			}
			if len(idx) == 0 {
				continue
			}
			i := idx[r.Intn(len(idx))]
			old := mapKeyOf(q.Calls[i].Arg)
			var cands []string
			for _, m := range hMapTypes {
				if mapKeyOf(m) != old {
					cands = append(cands, m)
				}
			}
			q.Calls[i].Arg = cands[r.Intn(len(cands))]
			q2 := q.dedupCalls()
			if len(q2.Calls) != len(q.Calls) {
				continue
			}
			return q2, "retype-nested-result"
		case 8: // change only the element type of a nested call's map (inner signature changes, result type stays)
			var idx []int
			for i, c := range q.Calls {
				if c.Kind == "sortkeys" || c.Kind == "fmapkeys" || c.Kind == "keys" || c.Kind == "deepchain" {
					idx = append(idx, i)
				}
			}
			if len(idx) == 0 {
				continue
			}
			i := idx[r.Intn(len(idx))]
			old := q.Calls[i].Arg
			var cands []string
			for _, m := range hMapTypes {
				if mapKeyOf(m) == mapKeyOf(old) && m != old {
					cands = append(cands, m)
				}
			}
			if len(cands) == 0 {
				continue
			}
			q.Calls[i].Arg = cands[r.Intn(len(cands))]
			q2 := q.dedupCalls()
			if len(q2.Calls) != len(q.Calls) {
				continue
			}
			return q2, "retype-nested-arg"
		case 13: // move a call between p.go and p_test.go
			if len(q.Calls) == 0 {
				continue
			}
			i := r.Intn(len(q.Calls))
			q.Calls[i].InTest = !q.Calls[i].InTest
			if q.Calls[i].InTest {
				return q, "move-call-to-test-file"
			}
			return q, "move-call-from-test-file"
		case 10: // add a type together with a call on it
			*seq++
			t := hType{Name: fmt.Sprintf("A%d", *seq)}
			for j, nf := 0, 1+r.Intn(3); j < nf; j++ {
				ft := hFieldTypes[r.Intn(len(hFieldTypes))]
				if r.Intn(3) == 0 {
					ft = []string{"*", "[]", ""}[r.Intn(3)] + q.Types[r.Intn(len(q.Types))].Name
				}
				t.Fields = append(t.Fields, hField{fmt.Sprintf("F%d", j), ft})
			}
			q.Types = append(q.Types, t)
			*seq++
			kind := []string{"equal", "hash", "compare", "clone", "gostring", "deepcopy"}[r.Intn(6)]
			q.Calls = append(q.Calls, hCall{Kind: kind, Name: fmt.Sprintf("N%d", *seq), Arg: "*" + t.Name})
			return q.dedupCalls(), "add-type"
		case 11: // remove a type no other type refers to, with the calls that name it
			if len(q.Types) < 2 {
				continue
			}
			var free []int
			for i, t := range q.Types {
				used := false
				for j, o := range q.Types {
					for _, f := range o.Fields {
						if j != i && hMentions(f.Type, t.Name) {
							used = true
						}
					}
				}
				if !used {
					free = append(free, i)
				}
			}
			if len(free) == 0 {
				continue
			}
			i := free[r.Intn(len(free))]
			name := q.Types[i].Name
			q.Types = append(q.Types[:i], q.Types[i+1:]...)
			var keep []hCall
			for _, c := range q.Calls {
				if !hMentions(c.Arg, name) {
					keep = append(keep, c)
				}
			}
			q.Calls = keep
			return q, "remove-type"
		case 12: // rename a type everywhere (the derived functions' signatures change, their names do not)
			i := r.Intn(len(q.Types))
			old := q.Types[i].Name
			*seq++
			nn := fmt.Sprintf("Q%d", *seq)
			q.Types[i].Name = nn
			for ti := range q.Types {
				for fi := range q.Types[ti].Fields {
					q.Types[ti].Fields[fi].Type = hRename(q.Types[ti].Fields[fi].Type, old, nn)
				}
			}
			for ci := range q.Calls {
				q.Calls[ci].Arg = hRename(q.Calls[ci].Arg, old, nn)
			}
			return q, "rename-type"
		case 9: // remove all calls
			if r.Intn(3) != 0 {
				continue
			}
			q.Calls = nil
			return q, "remove-all-calls"
		}
	}
	q = p.clone()
	q.Calls = append(q.Calls, randCall(r, q, seq))
	return q.dedupCalls(), "add-call"
}

// hMentions reports whether the type expression names the given program type.
func hMentions(expr, name string) bool {
	return regexp.MustCompile(`\b` + name + `\b`).MatchString(expr)
}

func hRename(expr, old, nn string) string {
	return regexp.MustCompile(`\b`+old+`\b`).ReplaceAllString(expr, nn)
}

type scratchRef struct {
	exit    int
	derived string // "" = no file
	exists  bool
	builds  bool
	stderr  string
}

// genScratch generates from a pristine copy.
func (c *Ctx) genScratch(src string) scratchRef { return c.genScratchOpt(src, true) }

func (c *Ctx) genScratchOpt(src string, build bool) scratchRef {
	dir := c.Env.Dir("c07-ref")
	defer os.RemoveAll(dir)
	grun.WriteTree(dir, c07Tree("", src))
	g := c.Goderive(dir, []string{"./p"})
	ref := scratchRef{exit: g.Exit, stderr: g.Stderr}
	if b, err := os.ReadFile(filepath.Join(dir, "p", "derived.gen.go")); err == nil {
		ref.derived, ref.exists = string(b), true
	}
	if g.Exit == 0 && build {
		ref.builds = c.c07Compiles(dir, src)
	}
	return ref
}

// remnantClass classifies a cut offset k of a generated file.
func remnantClass(full string, k int) string {
	if k == 0 {
		return "empty-file"
	}
	if k >= len(full) {
		return "complete"
	}
	// header = everything up to and including the package clause and the import block
	hdrEnd := strings.Index(full, "\n)\n")
	pk := strings.Index(full, "\npackage ")
	pkEnd := pk + 1 + strings.IndexByte(full[pk+1:], '\n') + 1
	if !strings.Contains(full, "\nimport (") || hdrEnd < 0 {
		hdrEnd = pkEnd
	} else {
		hdrEnd += 3
	}
	if k < hdrEnd {
		return "in-header"
	}
	// inside a func signature line?
	ls := strings.LastIndexByte(full[:k], '\n') + 1
	le := k + strings.IndexByte(full[k:], '\n')
	if le < k {
		le = len(full)
	}
	line := full[ls:le]
	if strings.HasPrefix(line, "func ") && k < le {
		return "in-func-signature"
	}
	return "in-body"
}

type c07Case struct {
	Name    string
	Class   string // history class or remnant class
	Desc    string
	Src     string // current sources vN
	Prior   string // prior content of derived.gen.go
	HasPrev bool   // whether a prior file exists
	Strace  int    // >0: obtain the prior state by killing a goderive run on PrevSrc at write #Strace
	PrevSrc string
}

func checkC07(c *Ctx) {
	c.Anchors = []string{"derive"}
	c.Run.Rule = "cases = (current sources vN, prior state of derived.gen.go). Histories: seeded random programs (2-4 struct types, 2-5 derive calls incl. nested calls whose inner result type feeds an outer call) evolved by edit operators (retype/add/remove field, add/remove/rename call, switch plugin, retype nested result, retype nested argument, remove all calls); after every step goderive runs ONCE over the tree that still holds the previous step's output. Crash points: the prior state is (i) what a goderive process killed by strace at write #1 / #2 of derived.gen.go really leaves, (ii) the first k bytes of the previous and of the new output for k at every line boundary plus seeded random offsets (thorough: additionally every k for the first step of the first history when the file is at most 4 KiB). Oracle: exit status 0, bytes identical to a from-scratch run of the same binary on a pristine copy, package compiles, file removed when no calls remain. distinct_nontrivial = distinct (edit-operator or remnant class, outcome) x program"
	c.Run.Assume = []string{"the from-scratch run of the same binary is the reference (determinism of that run is C08's subject)", "strace -e inject=write:signal=KILL yields the real on-disk state of an interrupted write"}
	c.Run.Floor = 20
	var cases []c07Case
	nh := tierN(c, 10, 16)
	steps := tierN(c, 3, 4)
	_, straceErr := exec.LookPath("strace")
	perHist := make([][]c07Case, nh)
	var notes, counts []string
	var mu sync.Mutex
	parallel(nh, 10, func(h int) {
		var cases []c07Case
		defer func() { perHist[h] = cases }()
		r := rand.New(rand.NewSource(c.Seed*1009 + int64(h)))
		seq := 0
		prog := randProg(r, &seq)
		prevSrc := prog.render()
		prevRef := c.genScratch(prevSrc)
		if prevRef.exit != 0 {
			mu.Lock()
			notes = append(notes, fmt.Sprintf("history %d: initial program is not generated from scratch (left to C01): %s", h, firstLine(prevRef.stderr)))
			mu.Unlock()
			return
		}
		if !prevRef.builds {
			// whether the from-scratch output compiles is C01's subject; independence of the prior file is
			// still decided for this history (bytes against the from-scratch run)
			mu.Lock()
			counts = append(counts, "history-whose-from-scratch-output-does-not-compile")
			mu.Unlock()
		}
		// systematically: every single call removed from / added to the initial program (one of them is
		// the call whose functions come last in the file, one the call whose functions come first)
		if prevRef.exists {
			for ci := range prog.Calls {
				q := prog.clone()
				q.Calls = append(q.Calls[:ci], q.Calls[ci+1:]...)
				if len(q.Calls) == 0 {
					continue
				}
				qsrc := q.render()
				cases = append(cases, c07Case{Name: fmt.Sprintf("c07-h%03d-rm%d", h, ci), Class: "history:remove-call", Desc: fmt.Sprintf("history %d: call %d of %d removed: one run over the full program's output", h, ci, len(prog.Calls)), Src: qsrc, Prior: prevRef.derived, HasPrev: true, PrevSrc: prevSrc})
				if qref := c.genScratchOpt(qsrc, false); qref.exit == 0 && qref.exists {
					cases = append(cases, c07Case{Name: fmt.Sprintf("c07-h%03d-add%d", h, ci), Class: "history:add-call", Desc: fmt.Sprintf("history %d: call %d of %d added back: one run over the output of the program without it", h, ci, len(prog.Calls)), Src: prevSrc, Prior: qref.derived, HasPrev: true, PrevSrc: qsrc})
				}
			}
		}
		// a second derive call appended on the SAME source line as an existing one (and taken away again)
		if prevRef.exists {
			args := prog.structArgs()
			for _, first := range []string{"", "+"} {
				q := prog.clone()
				q.Calls = append(q.Calls, hCall{Kind: "equalhash", Name: "SameLine" + first, Arg: args[h%len(args)]})
				q = q.dedupCalls()
				if len(q.Calls) != len(prog.Calls)+1 {
					continue
				}
				q2 := q.clone()
				if first == "" {
					q2.Calls[len(q2.Calls)-1].Name = "SameLine+"
				} else {
					q2.Calls[len(q2.Calls)-1].Name = "SameLine"
				}
				if len(q2.dedupCalls().Calls) != len(q2.Calls) {
					continue
				}
				if qref := c.genScratchOpt(q.render(), false); qref.exit == 0 && qref.exists {
					cls := "history:add-call-on-same-line"
					if first == "+" {
						cls = "history:remove-call-on-same-line"
					}
					cases = append(cases, c07Case{Name: fmt.Sprintf("c07-h%03d-line%d", h, len(first)), Class: cls, Desc: fmt.Sprintf("history %d: %s", h, cls), Src: q2.render(), Prior: qref.derived, HasPrev: true, PrevSrc: q.render()})
				}
			}
		}
		// systematically: every type renamed (the old file's signatures mention a name that no longer exists)
		if prevRef.exists {
			for ti := range prog.Types {
				q := prog.clone()
				old, nn := q.Types[ti].Name, fmt.Sprintf("Z%d", ti)
				q.Types[ti].Name = nn
				for tj := range q.Types {
					for fi := range q.Types[tj].Fields {
						q.Types[tj].Fields[fi].Type = hRename(q.Types[tj].Fields[fi].Type, old, nn)
					}
				}
				for ci := range q.Calls {
					q.Calls[ci].Arg = hRename(q.Calls[ci].Arg, old, nn)
				}
				cases = append(cases, c07Case{Name: fmt.Sprintf("c07-h%03d-ren%d", h, ti), Class: "history:rename-type", Desc: fmt.Sprintf("history %d: type %s renamed to %s: one run over the old program's output", h, old, nn), Src: q.render(), Prior: prevRef.derived, HasPrev: true, PrevSrc: prevSrc})
			}
		}
		// the earlier version had ONE more call whose functions come last in the file and need no further
		// import: the new output is then a proper prefix of the old file. Which plugin is emitted last
		// is found by trying candidates.
		if prevRef.exists {
			var cands []hCall
			for _, k := range []string{"equal", "hash", "compare", "clone", "gostring", "deepcopy"} {
				for _, a := range append(prog.structArgs(), "[]"+prog.Types[0].Name) {
					if k != "deepcopy" || strings.HasPrefix(a, "*") {
						cands = append(cands, hCall{Kind: k, Name: "ZZlast", Arg: a})
					}
				}
			}
			cands = append(cands, hCall{Kind: "unique", Name: "ZZlast", Arg: "int"}, hCall{Kind: "contains", Name: "ZZlast", Arg: "int"}, hCall{Kind: "min", Name: "ZZlast", Arg: "int"}, hCall{Kind: "keys", Name: "ZZlast", Arg: "map[int]bool"})
			found := 0
			for _, cand := range cands {
				q := prog.clone()
				q.Calls = append(q.Calls, cand)
				if len(q.dedupCalls().Calls) != len(q.Calls) {
					continue
				}
				qsrc := q.render()
				qref := c.genScratchOpt(qsrc, false)
				if qref.exit != 0 || !strings.HasPrefix(qref.derived, prevRef.derived) || len(qref.derived) <= len(prevRef.derived) {
					continue
				}
				cases = append(cases, c07Case{Name: fmt.Sprintf("c07-h%03d-rmlast%d", h, found), Class: "history:remove-last-function", Desc: fmt.Sprintf("history %d: the earlier version had one more call (%s over %s) whose functions were the last in the file: one run over its output", h, cand.Kind, cand.Arg), Src: prevSrc, Prior: qref.derived, HasPrev: true, PrevSrc: qsrc})
				if found++; found == 2 {
					break
				}
			}
		}
		for s := 0; s < steps; s++ {
			var cls string
			prog, cls = edit(r, prog, &seq)
			src := prog.render()
			cases = append(cases, c07Case{Name: fmt.Sprintf("c07-h%03d-s%d", h, s), Class: "history:" + cls, Desc: fmt.Sprintf("history %d step %d (%s): one run over the previous step's output", h, s, cls), Src: src, Prior: prevRef.derived, HasPrev: prevRef.exists, PrevSrc: prevSrc})
			ref := c.genScratch(src)
			if ref.exit != 0 {
				break
			}
			// remnants of the old and of the new output
			addRemnants := func(which, full string) {
				if full == "" {
					return
				}
				ks := map[int]bool{0: true}
				if !c.Quick && len(full) <= 4096 && h == 0 && s == 0 {
					// every offset: a few histories only (each offset is one goderive run)
					for k := 0; k < len(full); k++ {
						ks[k] = true
					}
				} else {
					for i := 0; i < len(full); i++ {
						if full[i] == '\n' {
							ks[i] = true
							ks[i+1] = true
						}
					}
					rr := rand.New(rand.NewSource(c.Seed*7 + int64(h*31+s)))
					for i := 0; i < tierN(c, 12, 32); i++ {
						ks[rr.Intn(len(full))] = true
					}
					if c.Quick {
						// seed-rotated subset of the line boundaries
						var all []int
						for k := range ks {
							all = append(all, k)
						}
						sort.Ints(all)
						ks = map[int]bool{0: true}
						for i, k := range all {
							if i%8 == int((c.Seed+int64(h))%8) || k < 120 {
								ks[k] = true
							}
						}
					}
				}
				var sorted []int
				for k := range ks {
					if k < len(full) {
						sorted = append(sorted, k)
					}
				}
				sort.Ints(sorted)
				for _, k := range sorted {
					cases = append(cases, c07Case{Name: fmt.Sprintf("c07-h%03d-s%d-%s%05d", h, s, which, k), Class: remnantKey(which, remnantClass(full, k), cls),
						Desc: fmt.Sprintf("history %d step %d: derived.gen.go holds the first %d of %d bytes of the %s output", h, s, k, len(full), which), Src: src, Prior: full[:k], HasPrev: true})
				}
			}
			if s == 0 || (!c.Quick && s == 2) {
				addRemnants("old", prevRef.derived)
				addRemnants("new", ref.derived)
			}
			if straceErr == nil && (s == 0 || !c.Quick) {
				for _, w := range []int{1, 2} {
					cases = append(cases, c07Case{Name: fmt.Sprintf("c07-h%03d-s%d-kill%d", h, s, w), Class: fmt.Sprintf("crash:killed-at-write-%d", w),
						Desc: fmt.Sprintf("history %d step %d: previous goderive run killed at write #%d to derived.gen.go", h, s, w), Src: src, Strace: w, PrevSrc: src})
				}
			}
			prevSrc, prevRef = src, ref
		}
	})
	for _, cs := range perHist {
		cases = append(cases, cs...)
	}
	sort.Strings(notes)
	for _, n := range notes {
		c.Run.Inconclusive(n)
	}
	for _, k := range counts {
		c.Run.Count(k, 1)
	}
	if straceErr != nil {
		c.Run.Inconclusive("strace not available: real crash states were not produced")
	}
	// scratch references per distinct source
	refs := map[string]*scratchRef{}
	var srcs []string
	for _, cs := range cases {
		if _, ok := refs[cs.Src]; !ok {
			refs[cs.Src] = nil
			srcs = append(srcs, cs.Src)
		}
	}
	tmp := make([]scratchRef, len(srcs))
	parallel(len(srcs), 12, func(i int) { tmp[i] = c.genScratch(srcs[i]) })
	for i, s := range srcs {
		r := tmp[i]
		refs[s] = &r
	}
	type res struct {
		g       grun.Result
		derived string
		exists  bool
		builds  bool
		prior   string
		note    string
	}
	outs := make([]res, len(cases))
	parallel(len(cases), 14, func(i int) {
		cs := cases[i]
		dir := c.Env.Dir(cs.Name)
		defer os.RemoveAll(dir)
		dpath := filepath.Join(dir, "p", "derived.gen.go")
		if cs.Strace > 0 {
			grun.WriteTree(dir, c07Tree("", cs.PrevSrc))
			args := []string{"-f", "-o", "/dev/null", "-P", dpath, "-e", "trace=write", "-e", fmt.Sprintf("inject=write:signal=KILL:when=%d", cs.Strace), c.Env.Goderive, "./p"}
			grun.Run("strace", args, grun.Opts{Dir: dir, Env: c.Env.ScratchEnv(), Wall: 2 * time.Minute})
			b, err := os.ReadFile(dpath)
			if err != nil {
				outs[i].note = "strace run left no derived.gen.go"
			}
			outs[i].prior = string(b)
			os.Remove(filepath.Join(dir, "p", "p_test.go"))
			grun.WriteTree(dir, c07Tree("", cs.Src))
		} else {
			grun.WriteTree(dir, c07Tree("", cs.Src))
			if cs.HasPrev {
				os.WriteFile(dpath, []byte(cs.Prior), 0o644)
			}
			outs[i].prior = cs.Prior
		}
		g := c.Goderive(dir, []string{"./p"})
		outs[i].g = g
		if b, err := os.ReadFile(dpath); err == nil {
			outs[i].derived, outs[i].exists = string(b), true
		}
		if g.Exit == 0 {
			if ref := refs[cs.Src]; ref != nil && ref.builds && ref.derived == outs[i].derived {
				outs[i].builds = true // byte-identical to the from-scratch output, which compiles
			} else {
				outs[i].builds = c.c07Compiles(dir, cs.Src)
			}
		}
	})
	c.c07FlagHistories()
	ns := 0
	for i, cs := range cases {
		o := outs[i]
		ref := refs[cs.Src]
		if ref.exit != 0 {
			c.Run.Inconclusive(cs.Name + ": from-scratch generation of the current sources fails (left to C01/C09): " + firstLine(ref.stderr))
			continue
		}
		c.Run.Eval(1)
		viol := func(sym, detail string) {
			// Two families of cases have ONE root cause each, whatever the symptom a particular history
			// produces (an Add / Generator error of whichever plugin trips first, stale bytes, or a package
			// that does not compile): the class of the case identifies the finding there.
			if !strings.HasPrefix(sym, "crash") && sym != "file-presence-differs" {
				switch {
				case strings.Contains(cs.Class, "retype-nested-result"):
					detail = "symptom: " + sym + "\n" + detail
					sym = "stale-inner-result-type"
				case strings.Contains(cs.Class, ":in-func-signature"):
					detail = "symptom: " + sym + "\n" + detail
					sym = "partial-signature-trusted"
				}
			}
			files := c07Tree("tree/", cs.Src)
			files["expected.derived.gen.go"] = ref.derived
			if cs.HasPrev || cs.Strace > 0 {
				files["tree/p/derived.gen.go"] = o.prior
			}
			c.Run.Violate(report.Violation{Key: cs.Class + "|" + sym, Summary: cs.Desc + ": " + sym, Detail: detail, Files: files,
				Replay: replayScript("./p || exit 1", "if [ -f \"$HERE/expected.derived.gen.go\" ]; then cmp p/derived.gen.go \"$HERE/expected.derived.gen.go\" || exit 1; fi\ngo vet ./p || exit 1\nexit 0")})
		}
		switch {
		case o.g.Crash != "":
			viol("crash", trunc(o.g.Stderr, 1200))
		case o.g.Exit != 0:
			viol("run-fails:"+c07Symptom(o.g.Stderr), "from scratch the same sources generate fine; with the prior derived.gen.go:\n"+trunc(o.g.Stderr, 800))
		case ref.exists != o.exists:
			viol("file-presence-differs", fmt.Sprintf("from scratch: file exists=%v; after the run over the prior state: exists=%v", ref.exists, o.exists))
		case ref.derived != o.derived:
			viol("bytes-differ-from-scratch", firstDiff(ref.derived, o.derived))
		case ref.builds && !o.builds:
			viol("does-not-compile", "")
		default:
			c.Run.Distinct(cs.Class + "|" + fmt.Sprint(len(cs.Src)))
			c.Run.Count("class:"+cs.Class, 1)
			if ns < 6 && (strings.HasPrefix(cs.Class, "history") || strings.HasPrefix(cs.Class, "crash")) {
				ns++
				c.Run.Sample(map[string]any{"case": cs.Desc, "class": cs.Class, "prior_bytes": len(o.prior), "result_bytes": len(o.derived), "file_exists": o.exists})
			}
		}
	}
}

var (
	reDeriveName = regexp.MustCompile(`derive[A-Za-z0-9_]+`)
	reTypeWord   = regexp.MustCompile(`\b(u?int\d*|string|bool|float\d+)\b`)
)

// c07Symptom abstracts generated names and concrete types out of a diagnostic, so that one defect
// (a stale inner result type) has one symptom whatever types the history happened to use.
func c07Symptom(stderr string) string {
	line := ""
	for _, ln := range strings.Split(stderr, "\n") {
		ln = strings.TrimSpace(ln)
		if ln == "" || strings.HasPrefix(ln, "could not yet generate") || strings.HasPrefix(ln, "warning: GOCOVERDIR") {
			continue
		}
		line = ln
		break
	}
	line = reDeriveName.ReplaceAllStringFunc(line, func(m string) string {
		for _, p := range []string{"deriveFmap", "deriveSort", "deriveKeys", "deriveEqual", "deriveCompare", "deriveHash", "deriveClone", "deriveGoString", "deriveDeepCopy", "deriveContains", "deriveUnique", "deriveMin"} {
			if strings.HasPrefix(m, p) {
				return p + "*"
			}
		}
		return m
	})
	line = reTypeWord.ReplaceAllString(line, "T")
	// registration / generation errors are classified by their stage only: which plugin trips over a
	// stale or partial signature depends on the calls the history happens to contain
	for _, stage := range []string{"Add Error", "Generator Error", "cannot generate"} {
		if strings.HasPrefix(line, stage) {
			return strings.ReplaceAll(stage, " ", "_")
		}
	}
	return symptom(line)
}

// remnantKey: a cut inside the header (or an empty file) fails the same way whatever edit came
// before; a cut in the body can expose a stale signature, which depends on the edit.
func remnantKey(which, class, edit string) string {
	if edit == "retype-nested-result" && class != "in-header" && class != "empty-file" {
		return "remnant-of-" + which + ":" + class + "@" + edit
	}
	return "remnant-of-" + which + ":" + class
}

// c07FlagHistories: histories under -autoname / -dedup. The flags rewrite user files, so the state a
// run leaves behind is the whole package directory; after a further edit one run over that state must
// give the same tree as a run over the same user sources without derived.gen.go.
func (c *Ctx) c07FlagHistories() {
	type fh struct {
		name, plugin, call, newFile string
		flags                       []string
	}
	var hs []fh
	for _, pl := range []struct{ name, call string }{{"equal", "func use%s(a, b *%s) bool { return deriveEqual(a, b) }"}, {"hash", "func use%s(a *%s) uint64 { return deriveHash(a) }"}, {"compare", "func use%s(a, b *%s) int { return deriveCompare(a, b) }"}} {
		for _, nf := range []string{"arc.go", "zeta.go"} {
			for _, fl := range [][]string{{"-autoname"}, {"-autoname", "-dedup"}} {
				hs = append(hs, fh{pl.name + "-" + nf + "-" + strings.Join(fl, ""), pl.name, pl.call, nf, fl})
			}
		}
	}
	if c.Quick {
		var keep []fh
		for i, h := range hs {
			if i%2 == int(c.Seed%2) {
				keep = append(keep, h)
			}
		}
		hs = keep
	}
	types := "type Circle struct{ R int }\n\ntype Square struct{ S []int }\n\ntype Arc struct{ A, B float64 }\n\ntype Tri struct{ P [3]*int }\n\n"
	parallel(len(hs), 6, func(i int) {
		h := hs[i]
		c.Run.Eval(1)
		dir := c.Env.Dir("c07-flags")
		defer os.RemoveAll(dir)
		v1 := "package p\n\n" + types + fmt.Sprintf(h.call, "Circle", "Circle") + "\n\n" + fmt.Sprintf(h.call, "Square", "Square") + "\n"
		grun.WriteTree(dir, map[string]string{"go.mod": pgen.GoMod, "p/shapes.go": v1})
		g1 := c.Goderive(dir, append(append([]string{}, h.flags...), "./p"))
		if g1.Exit != 0 {
			c.Run.Inconclusive("flag history " + h.name + ": first run fails (left to C11): " + firstLine(g1.Stderr))
			return
		}
		// the edit: a new file with a third call under the same name, and a fourth type in the old file
		newSrc := "package p\n\n" + fmt.Sprintf(h.call, "Arc", "Arc") + "\n"
		os.WriteFile(filepath.Join(dir, "p", h.newFile), []byte(newSrc), 0o644)
		f, _ := os.ReadFile(filepath.Join(dir, "p", "shapes.go"))
		os.WriteFile(filepath.Join(dir, "p", "shapes.go"), append(f, []byte("\n"+fmt.Sprintf(h.call, "Tri", "Tri")+"\n")...), 0o644)
		scratch := c.Env.Dir("c07-flags-ref")
		defer os.RemoveAll(scratch)
		grun.CopyTree(dir, scratch)
		os.Remove(filepath.Join(scratch, "p", "derived.gen.go"))
		before := treeFiles(dir, "tree")
		gA := c.Goderive(dir, append(append([]string{}, h.flags...), "./p"))
		gB := c.Goderive(scratch, append(append([]string{}, h.flags...), "./p"))
		viol := func(sym, detail string) {
			c.Run.Violate(report.Violation{Key: "history:flags-add-file|" + sym, Summary: fmt.Sprintf("history under %v (%s, new file %s): %s", h.flags, h.plugin, h.newFile, sym), Detail: detail, Files: before,
				Replay: replayScript(strings.Join(append(append([]string{}, h.flags...), "./p"), " ")+" || exit 1", "go build ./p || exit 1\nexit 0")})
		}
		if gB.Exit != 0 {
			c.Run.Inconclusive("flag history " + h.name + ": from-scratch run fails: " + firstLine(gB.Stderr))
			return
		}
		if gA.Exit != 0 {
			viol("run-fails", trunc(gA.Stderr, 800))
			return
		}
		a, b := treeFiles(filepath.Join(dir, "p"), ""), treeFiles(filepath.Join(scratch, "p"), "")
		for _, name := range sortedKeys(b) {
			if a[name] != b[name] {
				viol("tree-differs-from-scratch", name+": "+firstDiff(b[name], a[name]))
				return
			}
		}
		if len(a) != len(b) {
			viol("tree-differs-from-scratch", fmt.Sprintf("files: %v vs %v", sortedKeys(a), sortedKeys(b)))
			return
		}
		if bl := c.Go(dir, "build", "./p"); bl.Exit != 0 {
			viol("does-not-compile", trunc(bl.Stderr, 600))
			return
		}
		c.Run.Distinct("history:flags-add-file|" + h.name)
		c.Run.Count("class:history:flags-add-file", 1)
	})
}
