package main

import (
	"fmt"
	"go/ast"
	"go/parser"
	"go/printer"
	"go/token"
	"math/rand"
	"os"
	"path/filepath"
	"strings"

	"verif/internal/grun"
	"verif/internal/pgen"
	"verif/internal/report"
)

func init() { register("C11", "exploration", checkC11) }

type c11Call struct {
	Plugin int // 0 equal, 1 hash
	Name   int // index into the plugin's name alphabet
	Type   int // index into the type alphabet
}

type c11Case struct {
	Name  string
	Calls []c11Call
	Flags []string
	// Alphabet 1: the first two argument types are same-named types of two imported packages that share
	// their package name (scratch/a/x.T, scratch/b/x.T) instead of the local A and B
	Alphabet int
	// Stale > 0: goderive first runs (same flags) over the package holding only the first Stale calls; the
	// remaining calls are added afterwards and the run under test starts with that derived.gen.go in place
	Stale    int
	Reserved int // 3 / 4: like 1, but the occupied names are function-typed variables / types used in conversions. 0: nothing; 1: the user defines and calls functions named like the first would-be helpers (prefix_); 2: named exactly like the bare plugin prefixes
	Conflict bool
	Dup      bool
}

// the 4th "type" is the curried one-argument form over *A: its argument type list [*A] is a proper
// prefix of the two-argument list [*A *A]
// the 5th "type" is only known after a first generation pass: the arguments are results of deriveKeys
var c11Types = []string{"*A", "*B", "*C", "*A", "[]string<-deriveKeys"}
var c11Names = [][]string{{"deriveEqual", "deriveEqualXOfTwoThingsWithAVeryLongName", "deriveEqual_"}, {"deriveHash", "deriveHashXOfOneThingWithAVeryLongName", "deriveHash_"}}
var c11NamesReserved = [][]string{{"deriveEqual", "deriveEqualX", "deriveEqualY"}, {"deriveHash", "deriveHashX", "deriveHashY"}}

var c11NamesBare = [][]string{{"deriveEqualZ", "deriveEqualX", "deriveEqualY"}, {"deriveHashZ", "deriveHashX", "deriveHashY"}}

var c11TypesImported = []string{"*ax.T", "*bx.T", "*C", "*ax.T", "[]string<-deriveKeys"}

func (cs *c11Case) types() []string {
	if cs.Alphabet == 1 {
		return c11TypesImported
	}
	return c11Types
}

func (cs *c11Case) tree() map[string]string {
	files := map[string]string{"go.mod": pgen.GoMod, "p/a_calls.go": cs.source(), "p/z_user.go": cs.userSource()}
	if cs.Alphabet == 1 {
		files["a/x/x.go"] = "package x\n\ntype T struct{ X int }\n"
		files["b/x/x.go"] = "package x\n\ntype T struct{ Y string }\n"
	}
	return files
}

func (cs *c11Case) names() [][]string {
	switch cs.Reserved {
	case 1, 3, 4:
		return c11NamesReserved
	case 2:
		return c11NamesBare
	}
	return c11Names
}

// userSource is the hand-written part; it lives in a file that sorts AFTER the file with the
// derive calls, so reserved names have to be known before the first file is registered.
func (cs *c11Case) userSource() string {
	var sb strings.Builder
	sb.WriteString("package p\n\n")
	cs.writeUser(&sb)
	return sb.String()
}

func (cs *c11Case) source() string {
	var sb strings.Builder
	if cs.Alphabet == 1 {
		sb.WriteString("package p\n\nimport (\n\tax \"scratch/a/x\"\n\tbx \"scratch/b/x\"\n)\n\nvar (\n\t_ ax.T\n\t_ bx.T\n)\n\ntype C struct{ Z []int }\n\n")
	} else {
		sb.WriteString("package p\n\ntype A struct{ X int }\n\ntype B struct{ Y string }\n\ntype C struct{ Z []int }\n\n")
	}
	cs.writeCalls(&sb)
	return sb.String()
}

func (cs *c11Case) writeUser(sb *strings.Builder) {
	if cs.Reserved == 1 {
		sb.WriteString("// hand-written functions occupying the first helper names goderive would mint\nfunc deriveEqual_(x int) int { return x }\n\nfunc deriveHash_(x int) int { return x }\n\nvar _ = deriveEqual_(1) + deriveHash_(2)\n\n")
	}
	if cs.Reserved == 3 {
		sb.WriteString("// package-level function-typed variables occupying the first helper names goderive would mint\nvar deriveEqual_ = func(x int) int { return x }\n\nvar deriveHash_ = func(x int) int { return x }\n\nvar _ = deriveEqual_(1) + deriveHash_(2)\n\n")
	}
	if cs.Reserved == 4 {
		sb.WriteString("// types, used in conversions, occupying the first helper names goderive would mint\ntype deriveEqual_ int\n\ntype deriveHash_ int\n\nvar _ = int(deriveEqual_(1)) + int(deriveHash_(2))\n\n")
	}
	if cs.Reserved == 2 {
		sb.WriteString("// hand-written functions named exactly like the plugin prefixes\nfunc deriveEqual(x int) int { return x }\n\nfunc deriveHash(x int) int { return x }\n\nvar _ = deriveEqual(1) + deriveHash(2)\n\n")
	}
}

func (cs *c11Case) writeCalls(sb *strings.Builder) {
	for i, cl := range cs.Calls {
		T := cs.types()[cl.Type]
		n := cs.names()[cl.Plugin][cl.Name]
		if cl.Type == 4 && cl.Plugin == 0 {
			fmt.Fprintf(sb, "func use%d(m1, m2 map[string]int) bool { return %s(deriveKeys(m1), deriveKeys(m2)) }\n\n", i, n)
		} else if cl.Type == 4 {
			fmt.Fprintf(sb, "func use%d(m1 map[string]int) uint64 { return %s(deriveKeys(m1)) }\n\n", i, n)
		} else if cl.Plugin == 0 && cl.Type == 3 {
			fmt.Fprintf(sb, "func use%d(a, b %s) bool { return %s(a)(b) }\n\n", i, T, n)
		} else if cl.Plugin == 0 {
			fmt.Fprintf(sb, "func use%d(a, b %s) bool { return %s(a, b) }\n\n", i, T, n)
		} else {
			fmt.Fprintf(sb, "func use%d(a %s) uint64 { return %s(a) }\n\n", i, T, n)
		}
	}
}

// classify computes conflict / duplicate from the construction of the case.
func (cs *c11Case) classify() {
	for i, a := range cs.Calls {
		for _, b := range cs.Calls[i+1:] {
			if a.Plugin != b.Plugin {
				continue
			}
			if a.Name == b.Name && a.Type != b.Type {
				cs.Conflict = true
			}
			if a.Name != b.Name && a.Type == b.Type {
				cs.Dup = true
			}
		}
	}
}

// expected exit status: +1 must succeed, -1 must fail, 0 not fixed by the statement.
func (cs *c11Case) expect() int {
	auto, dedup := false, false
	for _, f := range cs.Flags {
		if f == "-autoname" {
			auto = true
		}
		if f == "-dedup" {
			dedup = true
		}
	}
	switch {
	case !cs.Conflict && !cs.Dup:
		return 1
	case auto && dedup:
		return 1
	case !auto && !dedup:
		return -1
	case auto: // -autoname alone
		if cs.Dup && !cs.Conflict {
			return -1
		}
		if cs.Conflict && !cs.Dup {
			return 1
		}
		return 0
	default: // -dedup alone
		if cs.Conflict && !cs.Dup {
			return -1
		}
		if cs.Dup && !cs.Conflict {
			return 1
		}
		return 0
	}
}

func c11Cases(c *Ctx) []c11Case {
	var seqs [][]c11Call
	// exhaustive: one plugin, k <= 3 calls over 3 names x 3 types (order matters: first registration wins)
	var rec func(cur []c11Call, k int)
	rec = func(cur []c11Call, k int) {
		if len(cur) > 0 {
			seqs = append(seqs, append([]c11Call{}, cur...))
		}
		if len(cur) == k {
			return
		}
		for n := 0; n < 3; n++ {
			for t := 0; t < 4; t++ {
				rec(append(cur, c11Call{0, n, t}), k)
			}
		}
	}
	rec(nil, 3)
	// pairs and triples in which one call has arguments that only type after a first generation pass
	for n1 := 0; n1 < 3; n1++ {
		for n2 := 0; n2 < 3; n2++ {
			for t := 0; t < 4; t++ {
				seqs = append(seqs, []c11Call{{0, n1, 4}, {0, n2, t}}, []c11Call{{0, n2, t}, {0, n1, 4}}, []c11Call{{0, n1, 4}, {0, n2, 4}})
			}
		}
	}
	r := rand.New(rand.NewSource(c.Seed*53 + 11))
	// random: two plugins, 4..6 calls
	nrand := tierN(c, 80, 1500)
	for i := 0; i < nrand; i++ {
		k := 4 + r.Intn(3)
		var s []c11Call
		for j := 0; j < k; j++ {
			pl := r.Intn(2)
			ty := r.Intn(3 + (1 - pl))
			if r.Intn(5) == 0 {
				ty = 4 // arguments that only type after a first pass
			}
			s = append(s, c11Call{pl, r.Intn(3), ty})
		}
		seqs = append(seqs, s)
	}
	flagSets := [][]string{nil, {"-autoname"}, {"-dedup"}, {"-autoname", "-dedup"}}
	var out []c11Case
	for si, s := range seqs {
		for fi, fl := range flagSets {
			for res := 0; res < 5; res++ {
				for alpha := 0; alpha < 2; alpha++ {
					cs := c11Case{Calls: s, Flags: fl, Reserved: res, Alphabet: alpha}
					cs.classify()
					if c.Quick {
						// seed-rotated slice: keep every clash-free singleton out, sample the rest
						mod := 13
						if res > 2 || alpha > 0 {
							mod = 39 // the added dimensions are sampled more thinly
						}
						h := (si*7 + fi*3 + res + alpha*5 + int(c.Seed)) % mod
						if h != 0 && !(len(s) <= 2 && res == 0 && alpha == 0) && !(len(s) == 2 && res == 0 && (si+fi)%4 == 0) && !(len(s) == 2 && res == 0 && alpha == 0 && (s[0].Type == 4 || s[1].Type == 4) && (si+fi)%2 == 0) {
							continue
						}
					} else if (res > 0 || alpha > 0) && (si+res+alpha)%3 != 0 {
						continue
					}
					cs.Name = fmt.Sprintf("c11-%05d", len(out))
					out = append(out, cs)
					if len(s) >= 2 && (si+fi+res)%3 == int(c.Seed%3) {
						st := cs
						st.Stale = len(s) - 1
						st.Name = fmt.Sprintf("c11-%05d", len(out))
						out = append(out, st)
					}
				}
			}
		}
	}
	return out
}

func (cs *c11Case) desc() string {
	var parts []string
	for _, cl := range cs.Calls {
		parts = append(parts, fmt.Sprintf("%s(%s)", cs.names()[cl.Plugin][cl.Name], cs.types()[cl.Type]))
	}
	return fmt.Sprintf("flags=%v reserved=%v stale=%d calls=[%s]", cs.Flags, cs.Reserved, cs.Stale, strings.Join(parts, " "))
}

// dupFuncs finds generated functions of one plugin with identical signatures.
func dupFuncs(src []byte) []string {
	fset := token.NewFileSet()
	f, err := parser.ParseFile(fset, "derived.gen.go", src, 0)
	if err != nil {
		return []string{"derived.gen.go does not parse: " + err.Error()}
	}
	seen := map[string]string{}
	var out []string
	for _, d := range f.Decls {
		fd, ok := d.(*ast.FuncDecl)
		if !ok {
			continue
		}
		plugin := ""
		for _, p := range []string{"deriveEqual", "deriveHash"} {
			if strings.HasPrefix(fd.Name.Name, p) {
				plugin = p
			}
		}
		if plugin == "" {
			continue
		}
		var sb strings.Builder
		printer.Fprint(&sb, fset, fd.Type)
		sig := plugin + " " + normaliseParamNames(sb.String())
		if prev, ok := seen[sig]; ok {
			out = append(out, fmt.Sprintf("%s and %s both have signature %s", prev, fd.Name.Name, sig))
		}
		seen[sig] = fd.Name.Name
	}
	return out
}

func normaliseParamNames(s string) string { return s } // generated functions of one plugin use the same parameter names

func checkC11(c *Ctx) {
	c.Anchors = []string{"derive"}
	c.Run.Rule = "cases = packages of derive calls built from an alphabet of 3 names x 3 pairwise non-assignable argument types per plugin: exhaustively all ordered sequences of k<=3 calls for one plugin, plus seeded random sequences of 4-6 calls over two plugins, each under all four flag combinations, with and without hand-written functions occupying would-be helper names; plus, for each of the 33 plugins, one conflict and one duplicate (call sites in two files) under all four flag combinations. Oracle: exit status vs the conflict/duplicate predicate computed from the construction (where the statement fixes it); after any successful run the package must compile (every call binds to a function accepting its arguments, no redeclaration of user names), and after -dedup no two generated functions of one plugin have the same signature. distinct_nontrivial = distinct (flags, conflict?, duplicate?, #calls, reserved?, outcome)"
	c.Run.Assume = []string{"mixed conflict+duplicate packages under a single flag get only the soundness clauses (the statement fixes no exit status)", "the three argument types are pairwise non-assignable, so 'compiles' implies 'bound to a function for exactly its argument types'"}
	c.Run.Floor = 12
	c.c11PluginSweep()
	cases := c11Cases(c)
	type res struct {
		g     grun.Result
		build grun.Result
		built bool
		dir   string
		dups  []string
	}
	outs := make([]res, len(cases))
	parallel(len(cases), 14, func(i int) {
		cs := cases[i]
		dir := c.Env.Dir(cs.Name)
		if cs.Stale > 0 {
			first := cs
			first.Calls = cs.Calls[:cs.Stale]
			grun.WriteTree(dir, first.tree())
			c.Goderive(dir, append(append([]string{}, cs.Flags...), "./p"))
		}
		grun.WriteTree(dir, cs.tree())
		g := c.Goderive(dir, append(append([]string{}, cs.Flags...), "./p"))
		r := res{g: g, dir: dir}
		if g.Exit == 0 && g.Crash == "" {
			r.build = c.Go(dir, "build", "./p")
			r.built = true
			if b, err := os.ReadFile(filepath.Join(dir, "p", "derived.gen.go")); err == nil {
				for _, f := range cs.Flags {
					if f == "-dedup" {
						r.dups = dupFuncs(b)
					}
				}
			}
		}
		outs[i] = r
		if g.Exit != 0 || (r.built && r.build.Exit == 0 && len(r.dups) == 0) {
			if (cs.expect() >= 0) == (g.Exit == 0) || cs.expect() == 0 {
				os.RemoveAll(dir) // keep scratch small
			}
		}
	})
	ns := 0
	for i := range cases {
		cs := &cases[i]
		o := outs[i]
		c.Run.Eval(1)
		want := cs.expect()
		class := fmt.Sprintf("flags=%s|conflict=%v|dup=%v|reserved=%d|alphabet=%d", strings.Join(cs.Flags, ""), cs.Conflict, cs.Dup, cs.Reserved, cs.Alphabet)
		if cs.Stale > 0 {
			class += "|stale-file"
		}
		viol := func(sym, detail string) {
			c.Run.Violate(report.Violation{
				Key: class + "|" + sym, Summary: cs.desc() + ": " + sym, Detail: detail,
				Files:  mapWithPrefix(cs.tree(), "tree/"),
				Replay: replayScript(strings.Join(append(append([]string{}, cs.Flags...), "./p"), " "), "go build ./p; echo build=$?\nexit 0"),
			})
		}
		if o.g.Crash != "" {
			viol("crash", trunc(o.g.Stderr, 1500))
			continue
		}
		if want == 1 && o.g.Exit != 0 {
			viol("rejected-but-must-be-accepted", "stderr: "+trunc(o.g.Stderr, 600))
			continue
		}
		if want == -1 && o.g.Exit == 0 {
			viol("accepted-but-must-be-rejected", "stderr: "+trunc(o.g.Stderr, 600))
			continue
		}
		outcome := "rejected"
		if o.g.Exit == 0 {
			outcome = "accepted"
			if o.built && o.build.Exit != 0 {
				viol("accepted-but-does-not-compile", trunc(o.build.Stderr+o.build.Stdout, 1200)+"\ngoderive stderr: "+trunc(o.g.Stderr, 400))
				continue
			}
			if len(o.dups) > 0 {
				viol("dedup-leaves-duplicate-functions", strings.Join(o.dups, "\n"))
				continue
			}
		}
		c.Run.Distinct(fmt.Sprintf("%s|calls=%d|%s", class, len(cs.Calls), outcome))
		c.Run.Count("outcome:"+outcome, 1)
		if want == 0 {
			c.Run.Count("exit_status_not_fixed_by_statement", 1)
		}
		if ns < 6 && (cs.Conflict || cs.Dup) {
			ns++
			c.Run.Sample(map[string]any{"case": cs.desc(), "conflict": cs.Conflict, "duplicate": cs.Dup, "expected": want, "exit": o.g.Exit})
		}
	}
}

// ---- every plugin once: one conflict and one duplicate under all four flag sets ---------------------

// c11PluginCalls: per plugin, declarations and two call expressions with pairwise non-assignable
// argument type lists (%s = the function name).
type c11Plugin struct {
	name  string
	decls string
	callA string // argument list A
	callB string // argument list B
}

var c11Plugins = []c11Plugin{
	{"Equal", "", "%s(pa, pa)", "%s(pb, pb)"},
	{"Compare", "", "%s(pa, pa)", "%s(pb, pb)"},
	{"Hash", "", "%s(pa)", "%s(pb)"},
	{"Clone", "", "%s(pa)", "%s(pb)"},
	{"GoString", "", "%s(pa)", "%s(pb)"},
	{"DeepCopy", "", "%s(pa, pa)", "%s(pb, pb)"},
	{"Keys", "", "%s(msi)", "%s(mis)"},
	{"Sort", "", "%s(li)", "%s(ls)"},
	{"Min", "", "%s(li, 0)", "%s(ls, \"\")"},
	{"Max", "", "%s(li, 0)", "%s(ls, \"\")"},
	{"Contains", "", "%s(li, 1)", "%s(ls, \"\")"},
	{"Unique", "", "%s(li)", "%s(ls)"},
	{"Set", "", "%s(li)", "%s(ls)"},
	{"Union", "", "%s(li, li)", "%s(ls, ls)"},
	{"Intersect", "", "%s(li, li)", "%s(ls, ls)"},
	{"Filter", "", "%s(predI, li)", "%s(predS, ls)"},
	{"TakeWhile", "", "%s(predI, li)", "%s(predS, ls)"},
	{"All", "", "%s(predI, li)", "%s(predS, ls)"},
	{"Any", "", "%s(predI, li)", "%s(predS, ls)"},
	{"Fmap", "", "%s(itos, li)", "%s(stoi, ls)"},
	{"Join", "", "%s(lli)", "%s(lls)"},
	{"Traverse", "", "%s(itosE, li)", "%s(stoiE, ls)"},
	{"Compose", "", "%s(getI, itosE)", "%s(getS, stoiE)"},
	{"ToError", "", "%s(eBad, itosB)", "%s(eBad, stoiB)"},
	{"Curry", "", "%s(fis)", "%s(fsi)"},
	{"Uncurry", "", "%s(cis)", "%s(csi)"},
	{"Flip", "", "%s(fis)", "%s(fsi)"},
	{"Apply", "", "%s(fis, \"x\")", "%s(fsi, 1)"},
	{"Tuple", "", "%s(1, \"a\")", "%s(\"a\", 1)"},
	{"Mem", "", "%s(itos)", "%s(stoi)"},
	{"Do", "", "%s(getI, getS)", "%s(getS, getI)"},
	{"Dup", "", "%s(ci)", "%s(cs)"},
	{"Pipeline", "", "%s(itocs, stocb)", "%s(stoci, itocb)"},
}

const c11SweepDecls = `type A struct{ X int }

type B struct{ Y string }

var (
	pa  *A
	pb  *B
	msi map[string]int
	mis map[int]string
	li  []int
	ls  []string
	lli [][]int
	lls [][]string
	ci  chan int
	cs  chan string
	eBad error
)

func predI(x int) bool                { return x > 0 }
func predS(x string) bool             { return x != "" }
func itos(x int) string               { return "" }
func stoi(x string) int               { return 0 }
func itosE(x int) (string, error)     { return "", nil }
func stoiE(x string) (int, error)     { return 0, nil }
func itosB(x int) (string, bool)      { return "", true }
func stoiB(x string) (int, bool)      { return 0, true }
func getI() (int, error)              { return 0, nil }
func getS() (string, error)           { return "", nil }
func fis(a int, b string) bool        { return true }
func fsi(a string, b int) bool        { return true }
func cis(a int) func(string) bool     { return func(string) bool { return true } }
func csi(a string) func(int) bool     { return func(int) bool { return true } }
func itocs(x int) <-chan string       { return nil }
func stocb(x string) <-chan bool      { return nil }
func stoci(x string) <-chan int       { return nil }
func itocb(x int) <-chan bool         { return nil }
`

// c11PluginSweep: for every plugin a conflict (one name, argument lists A and B) and a duplicate (two
// names, list A twice; the two call sites in different files), under all four flag combinations.
func (c *Ctx) c11PluginSweep() {
	type job struct {
		pl    c11Plugin
		kind  string // conflict | duplicate
		flags []string
	}
	flagSets := [][]string{nil, {"-autoname"}, {"-dedup"}, {"-autoname", "-dedup"}}
	var jobs []job
	for _, pl := range c11Plugins {
		for _, k := range []string{"conflict", "duplicate"} {
			for _, fl := range flagSets {
				jobs = append(jobs, job{pl, k, fl})
			}
		}
	}
	type res struct {
		g     grun.Result
		build grun.Result
		files map[string]string
	}
	outs := make([]res, len(jobs))
	parallel(len(jobs), 14, func(i int) {
		j := jobs[i]
		n1, n2, c2 := "derive"+j.pl.name, "derive"+j.pl.name, j.pl.callB
		if j.kind == "duplicate" {
			n2, c2 = "derive"+j.pl.name+"Other", j.pl.callA
		}
		files := map[string]string{"go.mod": pgen.GoMod,
			"p/decls.go": "package p\n\n" + c11SweepDecls,
			"p/use1.go":  "package p\n\nfunc use1() { " + fmt.Sprintf(j.pl.callA, n1) + " }\n",
			"p/use2.go":  "package p\n\nfunc use2() { " + fmt.Sprintf(c2, n2) + " }\n"}
		dir := c.Env.Dir("c11-sweep")
		defer os.RemoveAll(dir)
		grun.WriteTree(dir, files)
		g := c.Goderive(dir, append(append([]string{}, j.flags...), "./p"))
		r := res{g: g, files: files}
		if g.Exit == 0 && g.Crash == "" {
			r.build = c.Go(dir, "build", "./p")
			// the tree as goderive left it (renamed call sites included)
			for _, f := range []string{"p/use1.go", "p/use2.go", "p/derived.gen.go"} {
				if b, err := os.ReadFile(filepath.Join(dir, f)); err == nil {
					r.files["after/"+f] = string(b)
				}
			}
		}
		outs[i] = r
	})
	for i, j := range jobs {
		o := outs[i]
		c.Run.Eval(1)
		auto, dedup := false, false
		for _, f := range j.flags {
			auto = auto || f == "-autoname"
			dedup = dedup || f == "-dedup"
		}
		want := -1 // must fail
		if auto && dedup || j.kind == "conflict" && auto || j.kind == "duplicate" && dedup {
			want = 1
		}
		class := fmt.Sprintf("plugin=%s|%s|flags=%s", strings.ToLower(j.pl.name), j.kind, strings.Join(j.flags, ""))
		viol := func(sym, detail string) {
			c.Run.Violate(report.Violation{Key: class + "|" + sym, Summary: fmt.Sprintf("derive%s: one %s under flags %v: %s", j.pl.name, j.kind, j.flags, sym), Detail: detail,
				Files: mapWithPrefix(o.files, "tree/"), Replay: replayScript(strings.Join(append(append([]string{}, j.flags...), "./p"), " "), "go build ./p; echo build=$?\nexit 0")})
		}
		switch {
		case o.g.Crash != "":
			viol("crash", trunc(o.g.Stderr, 1500))
		case want == 1 && o.g.Exit != 0:
			viol("rejected-but-must-be-accepted", "stderr: "+trunc(o.g.Stderr, 600))
		case want == -1 && o.g.Exit == 0:
			viol("accepted-but-must-be-rejected", "stderr: "+trunc(o.g.Stderr, 600))
		case o.g.Exit == 0 && o.build.Exit != 0:
			viol("accepted-but-does-not-compile", trunc(o.build.Stderr+o.build.Stdout, 1200)+"\ngoderive stderr: "+trunc(o.g.Stderr, 400))
		default:
			c.Run.Distinct(class)
			c.Run.Count("plugin_sweep_cases", 1)
		}
	}
}
