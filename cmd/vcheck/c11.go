package main

import (
	"fmt"
	"go/ast"
	"go/parser"
	"go/printer"
	"go/token"
	"math/rand"
	"os"
	"path/filepath"
	"strings"

	"verif/internal/grun"
	"verif/internal/pgen"
	"verif/internal/report"
)

func init() { register("C11", "exploration", checkC11) }

type c11Call struct {
	Plugin int // 0 equal, 1 hash
	Name   int // index into the plugin's name alphabet
	Type   int // index into the type alphabet
}

type c11Case struct {
	Name  string
	Calls []c11Call
	Flags []string
	// Alphabet 1: the first two argument types are same-named types of two imported packages that share
	// their package name (scratch/a/x.T, scratch/b/x.T) instead of the local A and B
	Alphabet int
	Reserved int // 3 / 4: like 1, but the occupied names are function-typed variables / types used in conversions. 0: nothing; 1: the user defines and calls functions named like the first would-be helpers (prefix_); 2: named exactly like the bare plugin prefixes
	Conflict bool
	Dup      bool
}

// the 4th "type" is the curried one-argument form over *A: its argument type list [*A] is a proper
// prefix of the two-argument list [*A *A]
var c11Types = []string{"*A", "*B", "*C", "*A"}
var c11Names = [][]string{{"deriveEqual", "deriveEqualX", "deriveEqual_"}, {"deriveHash", "deriveHashX", "deriveHash_"}}
var c11NamesReserved = [][]string{{"deriveEqual", "deriveEqualX", "deriveEqualY"}, {"deriveHash", "deriveHashX", "deriveHashY"}}

var c11NamesBare = [][]string{{"deriveEqualZ", "deriveEqualX", "deriveEqualY"}, {"deriveHashZ", "deriveHashX", "deriveHashY"}}

var c11TypesImported = []string{"*ax.T", "*bx.T", "*C", "*ax.T"}

func (cs *c11Case) types() []string {
	if cs.Alphabet == 1 {
		return c11TypesImported
	}
	return c11Types
}

func (cs *c11Case) tree() map[string]string {
	files := map[string]string{"go.mod": pgen.GoMod, "p/a_calls.go": cs.source(), "p/z_user.go": cs.userSource()}
	if cs.Alphabet == 1 {
		files["a/x/x.go"] = "package x\n\ntype T struct{ X int }\n"
		files["b/x/x.go"] = "package x\n\ntype T struct{ Y string }\n"
	}
	return files
}

func (cs *c11Case) names() [][]string {
	switch cs.Reserved {
	case 1, 3, 4:
		return c11NamesReserved
	case 2:
		return c11NamesBare
	}
	return c11Names
}

// userSource is the hand-written part; it lives in a file that sorts AFTER the file with the
// derive calls, so reserved names have to be known before the first file is registered.
func (cs *c11Case) userSource() string {
	var sb strings.Builder
	sb.WriteString("package p\n\n")
	cs.writeUser(&sb)
	return sb.String()
}

func (cs *c11Case) source() string {
	var sb strings.Builder
	if cs.Alphabet == 1 {
		sb.WriteString("package p\n\nimport (\n\tax \"scratch/a/x\"\n\tbx \"scratch/b/x\"\n)\n\nvar (\n\t_ ax.T\n\t_ bx.T\n)\n\ntype C struct{ Z []int }\n\n")
	} else {
		sb.WriteString("package p\n\ntype A struct{ X int }\n\ntype B struct{ Y string }\n\ntype C struct{ Z []int }\n\n")
	}
	cs.writeCalls(&sb)
	return sb.String()
}

func (cs *c11Case) writeUser(sb *strings.Builder) {
	if cs.Reserved == 1 {
		sb.WriteString("// hand-written functions occupying the first helper names goderive would mint\nfunc deriveEqual_(x int) int { return x }\n\nfunc deriveHash_(x int) int { return x }\n\nvar _ = deriveEqual_(1) + deriveHash_(2)\n\n")
	}
	if cs.Reserved == 3 {
		sb.WriteString("// package-level function-typed variables occupying the first helper names goderive would mint\nvar deriveEqual_ = func(x int) int { return x }\n\nvar deriveHash_ = func(x int) int { return x }\n\nvar _ = deriveEqual_(1) + deriveHash_(2)\n\n")
	}
	if cs.Reserved == 4 {
		sb.WriteString("// types, used in conversions, occupying the first helper names goderive would mint\ntype deriveEqual_ int\n\ntype deriveHash_ int\n\nvar _ = int(deriveEqual_(1)) + int(deriveHash_(2))\n\n")
	}
	if cs.Reserved == 2 {
		sb.WriteString("// hand-written functions named exactly like the plugin prefixes\nfunc deriveEqual(x int) int { return x }\n\nfunc deriveHash(x int) int { return x }\n\nvar _ = deriveEqual(1) + deriveHash(2)\n\n")
	}
}

func (cs *c11Case) writeCalls(sb *strings.Builder) {
	for i, cl := range cs.Calls {
		T := cs.types()[cl.Type]
		n := cs.names()[cl.Plugin][cl.Name]
		if cl.Plugin == 0 && cl.Type == 3 {
			fmt.Fprintf(sb, "func use%d(a, b %s) bool { return %s(a)(b) }\n\n", i, T, n)
		} else if cl.Plugin == 0 {
			fmt.Fprintf(sb, "func use%d(a, b %s) bool { return %s(a, b) }\n\n", i, T, n)
		} else {
			fmt.Fprintf(sb, "func use%d(a %s) uint64 { return %s(a) }\n\n", i, T, n)
		}
	}
}

// classify computes conflict / duplicate from the construction of the case.
func (cs *c11Case) classify() {
	for i, a := range cs.Calls {
		for _, b := range cs.Calls[i+1:] {
			if a.Plugin != b.Plugin {
				continue
			}
			if a.Name == b.Name && a.Type != b.Type {
				cs.Conflict = true
			}
			if a.Name != b.Name && a.Type == b.Type {
				cs.Dup = true
			}
		}
	}
}

// expected exit status: +1 must succeed, -1 must fail, 0 not fixed by the statement.
func (cs *c11Case) expect() int {
	auto, dedup := false, false
	for _, f := range cs.Flags {
		if f == "-autoname" {
			auto = true
		}
		if f == "-dedup" {
			dedup = true
		}
	}
	switch {
	case !cs.Conflict && !cs.Dup:
		return 1
	case auto && dedup:
		return 1
	case !auto && !dedup:
		return -1
	case auto: // -autoname alone
		if cs.Dup && !cs.Conflict {
			return -1
		}
		if cs.Conflict && !cs.Dup {
			return 1
		}
		return 0
	default: // -dedup alone
		if cs.Conflict && !cs.Dup {
			return -1
		}
		if cs.Dup && !cs.Conflict {
			return 1
		}
		return 0
	}
}

func c11Cases(c *Ctx) []c11Case {
	var seqs [][]c11Call
	// exhaustive: one plugin, k <= 3 calls over 3 names x 3 types (order matters: first registration wins)
	var rec func(cur []c11Call, k int)
	rec = func(cur []c11Call, k int) {
		if len(cur) > 0 {
			seqs = append(seqs, append([]c11Call{}, cur...))
		}
		if len(cur) == k {
			return
		}
		for n := 0; n < 3; n++ {
			for t := 0; t < 4; t++ {
				rec(append(cur, c11Call{0, n, t}), k)
			}
		}
	}
	rec(nil, 3)
	r := rand.New(rand.NewSource(c.Seed*53 + 11))
	// random: two plugins, 4..6 calls
	nrand := tierN(c, 80, 1500)
	for i := 0; i < nrand; i++ {
		k := 4 + r.Intn(3)
		var s []c11Call
		for j := 0; j < k; j++ {
			pl := r.Intn(2)
			s = append(s, c11Call{pl, r.Intn(3), r.Intn(3 + (1 - pl))})
		}
		seqs = append(seqs, s)
	}
	flagSets := [][]string{nil, {"-autoname"}, {"-dedup"}, {"-autoname", "-dedup"}}
	var out []c11Case
	for si, s := range seqs {
		for fi, fl := range flagSets {
			for res := 0; res < 5; res++ {
				for alpha := 0; alpha < 2; alpha++ {
					cs := c11Case{Calls: s, Flags: fl, Reserved: res, Alphabet: alpha}
					cs.classify()
					if c.Quick {
						// seed-rotated slice: keep every clash-free singleton out, sample the rest
						mod := 13
						if res > 2 || alpha > 0 {
							mod = 39 // the added dimensions are sampled more thinly
						}
						h := (si*7 + fi*3 + res + alpha*5 + int(c.Seed)) % mod
						if h != 0 && !(len(s) <= 2 && res == 0 && alpha == 0) && !(len(s) == 2 && res == 0 && (si+fi)%4 == 0) {
							continue
						}
					} else if (res > 0 || alpha > 0) && (si+res+alpha)%3 != 0 {
						continue
					}
					cs.Name = fmt.Sprintf("c11-%05d", len(out))
					out = append(out, cs)
				}
			}
		}
	}
	return out
}

func (cs *c11Case) desc() string {
	var parts []string
	for _, cl := range cs.Calls {
		parts = append(parts, fmt.Sprintf("%s(%s)", cs.names()[cl.Plugin][cl.Name], cs.types()[cl.Type]))
	}
	return fmt.Sprintf("flags=%v reserved=%v calls=[%s]", cs.Flags, cs.Reserved, strings.Join(parts, " "))
}

// dupFuncs finds generated functions of one plugin with identical signatures.
func dupFuncs(src []byte) []string {
	fset := token.NewFileSet()
	f, err := parser.ParseFile(fset, "derived.gen.go", src, 0)
	if err != nil {
		return []string{"derived.gen.go does not parse: " + err.Error()}
	}
	seen := map[string]string{}
	var out []string
	for _, d := range f.Decls {
		fd, ok := d.(*ast.FuncDecl)
		if !ok {
			continue
		}
		plugin := ""
		for _, p := range []string{"deriveEqual", "deriveHash"} {
			if strings.HasPrefix(fd.Name.Name, p) {
				plugin = p
			}
		}
		if plugin == "" {
			continue
		}
		var sb strings.Builder
		printer.Fprint(&sb, fset, fd.Type)
		sig := plugin + " " + normaliseParamNames(sb.String())
		if prev, ok := seen[sig]; ok {
			out = append(out, fmt.Sprintf("%s and %s both have signature %s", prev, fd.Name.Name, sig))
		}
		seen[sig] = fd.Name.Name
	}
	return out
}

func normaliseParamNames(s string) string { return s } // generated functions of one plugin use the same parameter names

func checkC11(c *Ctx) {
	c.Anchors = []string{"derive"}
	c.Run.Rule = "cases = packages of derive calls built from an alphabet of 3 names x 3 pairwise non-assignable argument types per plugin: exhaustively all ordered sequences of k<=3 calls for one plugin, plus seeded random sequences of 4-6 calls over two plugins, each under all four flag combinations, with and without hand-written functions occupying would-be helper names. Oracle: exit status vs the conflict/duplicate predicate computed from the construction (where the statement fixes it); after any successful run the package must compile (every call binds to a function accepting its arguments, no redeclaration of user names), and after -dedup no two generated functions of one plugin have the same signature. distinct_nontrivial = distinct (flags, conflict?, duplicate?, #calls, reserved?, outcome)"
	c.Run.Assume = []string{"mixed conflict+duplicate packages under a single flag get only the soundness clauses (the statement fixes no exit status)", "the three argument types are pairwise non-assignable, so 'compiles' implies 'bound to a function for exactly its argument types'"}
	c.Run.Floor = 12
	cases := c11Cases(c)
	type res struct {
		g     grun.Result
		build grun.Result
		built bool
		dir   string
		dups  []string
	}
	outs := make([]res, len(cases))
	parallel(len(cases), 14, func(i int) {
		cs := cases[i]
		dir := c.Env.Dir(cs.Name)
		grun.WriteTree(dir, cs.tree())
		g := c.Goderive(dir, append(append([]string{}, cs.Flags...), "./p"))
		r := res{g: g, dir: dir}
		if g.Exit == 0 && g.Crash == "" {
			r.build = c.Go(dir, "build", "./p")
			r.built = true
			if b, err := os.ReadFile(filepath.Join(dir, "p", "derived.gen.go")); err == nil {
				for _, f := range cs.Flags {
					if f == "-dedup" {
						r.dups = dupFuncs(b)
					}
				}
			}
		}
		outs[i] = r
		if g.Exit != 0 || (r.built && r.build.Exit == 0 && len(r.dups) == 0) {
			if (cs.expect() >= 0) == (g.Exit == 0) || cs.expect() == 0 {
				os.RemoveAll(dir) // keep scratch small
			}
		}
	})
	ns := 0
	for i := range cases {
		cs := &cases[i]
		o := outs[i]
		c.Run.Eval(1)
		want := cs.expect()
		class := fmt.Sprintf("flags=%s|conflict=%v|dup=%v|reserved=%d|alphabet=%d", strings.Join(cs.Flags, ""), cs.Conflict, cs.Dup, cs.Reserved, cs.Alphabet)
		viol := func(sym, detail string) {
			c.Run.Violate(report.Violation{
				Key: class + "|" + sym, Summary: cs.desc() + ": " + sym, Detail: detail,
				Files:  mapWithPrefix(cs.tree(), "tree/"),
				Replay: replayScript(strings.Join(append(append([]string{}, cs.Flags...), "./p"), " "), "go build ./p; echo build=$?\nexit 0"),
			})
		}
		if o.g.Crash != "" {
			viol("crash", trunc(o.g.Stderr, 1500))
			continue
		}
		if want == 1 && o.g.Exit != 0 {
			viol("rejected-but-must-be-accepted", "stderr: "+trunc(o.g.Stderr, 600))
			continue
		}
		if want == -1 && o.g.Exit == 0 {
			viol("accepted-but-must-be-rejected", "stderr: "+trunc(o.g.Stderr, 600))
			continue
		}
		outcome := "rejected"
		if o.g.Exit == 0 {
			outcome = "accepted"
			if o.built && o.build.Exit != 0 {
				viol("accepted-but-does-not-compile", trunc(o.build.Stderr+o.build.Stdout, 1200)+"\ngoderive stderr: "+trunc(o.g.Stderr, 400))
				continue
			}
			if len(o.dups) > 0 {
				viol("dedup-leaves-duplicate-functions", strings.Join(o.dups, "\n"))
				continue
			}
		}
		c.Run.Distinct(fmt.Sprintf("%s|calls=%d|%s", class, len(cs.Calls), outcome))
		c.Run.Count("outcome:"+outcome, 1)
		if want == 0 {
			c.Run.Count("exit_status_not_fixed_by_statement", 1)
		}
		if ns < 6 && (cs.Conflict || cs.Dup) {
			ns++
			c.Run.Sample(map[string]any{"case": cs.desc(), "conflict": cs.Conflict, "duplicate": cs.Dup, "expected": want, "exit": o.g.Exit})
		}
	}
}
