package main

import (
	"bufio"
	"encoding/json"
	"fmt"
	"os"
	"path/filepath"
	"strings"
	"time"

	"verif/internal/grun"
	"verif/internal/pgen"
	"verif/internal/report"
)

// FOutcome is the outcome of one functional item.
type FOutcome struct {
	Item   *pgen.FItem
	Stage  string // ok | generate | compile | crash | missing
	Stderr string
	Res    *ItemResult
	Dir    string
}

func (c *Ctx) runFuncBatches(items []pgen.FItem, batch int, race bool, n int) []*FOutcome {
	return c.runFuncBatchesOpt(items, batch, race, n, false)
}

// runFuncBatchesOpt: with buildOnly the emitted code is only compiled (C01).
func (c *Ctx) runFuncBatchesOpt(items []pgen.FItem, batch int, race bool, n int, buildOnly bool) []*FOutcome {
	var batches [][]pgen.FItem
	for len(items) > 0 {
		k := batch
		if k > len(items) {
			k = len(items)
		}
		batches = append(batches, items[:k])
		items = items[k:]
	}
	res := make([][]*FOutcome, len(batches))
	parallel(len(batches), 6, func(i int) {
		res[i] = c.runFuncBatch(fmt.Sprintf("%s-f%02d", strings.ToLower(c.Prop), i), batches[i], race, n, buildOnly)
	})
	var out []*FOutcome
	for _, r := range res {
		out = append(out, r...)
	}
	return out
}

func (c *Ctx) runFuncBatch(name string, items []pgen.FItem, race bool, n int, buildOnly bool) []*FOutcome {
	dir := c.Env.Dir(name)
	grun.WriteTree(dir, pgen.RenderFuncPackage(items))
	WriteMon(dir)
	fail := func(stage, stderr string) []*FOutcome {
		if len(items) > 1 && atomicAdd(&c.isolations, 1) <= 60 {
			subs := make([][]*FOutcome, len(items))
			parallel(len(items), 4, func(i int) {
				subs[i] = c.runFuncBatch(fmt.Sprintf("%s-s%d", name, i), items[i:i+1], race, n, buildOnly)
			})
			var out []*FOutcome
			anyFail := false
			for _, s := range subs {
				out = append(out, s...)
				for _, x := range s {
					if x.Stage != "ok" {
						anyFail = true
					}
				}
			}
			if !anyFail {
				it := items[0]
				it.Tags = append(append([]string{}, it.Tags...), "combination-of-items")
				out = append(out, &FOutcome{Item: &it, Stage: stage, Stderr: "only in combination with the other items of the batch (each item alone is fine):\n" + stderr, Dir: dir})
				return out
			}
			os.RemoveAll(dir)
			return out
		}
		var out []*FOutcome
		for i := range items {
			out = append(out, &FOutcome{Item: &items[i], Stage: stage, Stderr: stderr, Dir: dir})
		}
		return out
	}
	g := c.Goderive(dir, []string{"./p"})
	if g.TimedOut && g.Crash == "" {
		return fail("timeout", "goderive: wall-clock watchdog fired")
	}
	if g.Exit != 0 || g.Crash != "" {
		return fail("generate", g.Stderr)
	}
	if buildOnly {
		if bl := c.Go(dir, "build", "./p"); bl.TimedOut {
			return fail("timeout", "go build: wall-clock watchdog fired")
		} else if bl.Exit != 0 {
			return fail("compile", bl.Stderr+bl.Stdout)
		}
		var out []*FOutcome
		for i := range items {
			out = append(out, &FOutcome{Item: &items[i], Stage: "ok", Dir: dir, Res: &ItemResult{ID: items[i].ID}})
		}
		return out
	}
	args := []string{"build"}
	if race {
		args = append(args, "-race")
	}
	args = append(args, "-o", "h", "./cmd/h")
	if bl := c.Go(dir, args...); bl.TimedOut {
		return fail("timeout", "go build: wall-clock watchdog fired")
	} else if bl.Exit != 0 {
		return fail("compile", bl.Stderr+bl.Stdout)
	}
	byID := map[string]*pgen.FItem{}
	var remaining []string
	for i := range items {
		byID[items[i].ID] = &items[i]
		remaining = append(remaining, items[i].ID)
	}
	outs := map[string]*FOutcome{}
	for len(remaining) > 0 {
		prog := filepath.Join(dir, "progress")
		os.Remove(prog)
		hargs := []string{"-prop", c.Prop, "-seed", fmt.Sprint(c.Seed), "-pool", fmt.Sprint(n), "-progress", prog, "-tier", c.Tier, "-only", strings.Join(remaining, ",")}
		r := grun.Run(filepath.Join(dir, "h"), hargs, grun.Opts{Dir: dir, Env: c.Env.ScratchEnv("GORACE=halt_on_error=1 exitcode=66"), Wall: 20 * time.Minute})
		done := map[string]bool{}
		sc := bufio.NewScanner(strings.NewReader(r.Stdout))
		sc.Buffer(make([]byte, 1<<20), 64<<20)
		for sc.Scan() {
			var ir ItemResult
			if json.Unmarshal(sc.Bytes(), &ir) != nil || ir.ID == "" {
				continue
			}
			done[ir.ID] = true
			irc := ir
			outs[ir.ID] = &FOutcome{Item: byID[ir.ID], Stage: "ok", Res: &irc, Dir: dir}
		}
		var rest []string
		for _, id := range remaining {
			if !done[id] {
				rest = append(rest, id)
			}
		}
		if r.Exit == 0 || len(rest) == 0 {
			for _, id := range rest {
				outs[id] = &FOutcome{Item: byID[id], Stage: "missing", Stderr: "harness exited without reporting the item", Dir: dir}
			}
			break
		}
		if r.TimedOut {
			for _, id := range rest {
				outs[id] = &FOutcome{Item: byID[id], Stage: "timeout", Stderr: "monitor process: wall-clock watchdog fired", Dir: dir}
			}
			break
		}
		cur, _ := os.ReadFile(prog)
		crashed := strings.TrimSpace(string(cur))
		if crashed == "" || done[crashed] {
			crashed = rest[0]
		}
		outs[crashed] = &FOutcome{Item: byID[crashed], Stage: "crash", Stderr: tailLines(r.Stderr, 60), Dir: dir}
		var next []string
		for _, id := range rest {
			if id != crashed {
				next = append(next, id)
			}
		}
		remaining = next
	}
	var res []*FOutcome
	for i := range items {
		if oc := outs[items[i].ID]; oc != nil {
			res = append(res, oc)
		}
	}
	return res
}

func fKey(it *pgen.FItem, class string) string {
	return class + "|" + strings.Join(it.Tags, ",")
}

func (c *Ctx) judgeFuncOutcomes(outs []*FOutcome, race bool) {
	ns := 0
	for _, oc := range outs {
		it := oc.Item
		switch oc.Stage {
		case "ok":
			res := oc.Res
			if strings.HasPrefix(res.Skipped, "watchdog") {
				c.Run.Inconclusive(fmt.Sprintf("item %s (%s): %s", it.ID, it.Shape, res.Skipped))
			}
			c.Run.Eval(res.Evals)
			c.Run.Count("items", 1)
			for cl := range res.Classes {
				c.Run.Distinct(it.Shape + "|" + cl)
			}
			if ns < 5 && res.NViol == 0 {
				ns++
				c.Run.Sample(map[string]any{"id": it.ID, "shape": it.Shape, "tags": it.Tags, "evaluations": res.Evals, "classes": res.Classes})
			}
			seen := map[string]bool{}
			for _, v := range res.Viols {
				k := fKey(it, classRoot(v.Class))
				if seen[k] {
					continue
				}
				seen[k] = true
				c.Run.Violate(report.Violation{Key: k, Summary: fmt.Sprintf("item %s (%s): %s (%d violating observations)", it.ID, it.Shape, v.Class, res.NViol), Detail: v.Detail + "\n--- item source ---\n" + trunc(it.Src, 1800),
					Files: persistTree(oc.Dir), Replay: harnessReplay(c.Prop, it.ID, race)})
			}
		case "crash":
			c.Run.Eval(1)
			c.Run.Violate(report.Violation{Key: fKey(it, "process-fatal"), Summary: fmt.Sprintf("item %s (%s): the harness process died while evaluating this item", it.ID, it.Shape), Detail: oc.Stderr,
				Files: persistTree(oc.Dir), Replay: harnessReplay(c.Prop, it.ID, race)})
		case "generate", "compile":
			c.Run.Eval(1)
			sym := "exit0-does-not-compile:" + symptom(oc.Stderr)
			if oc.Stage == "generate" {
				sym = "generation-fails:" + symptom(oc.Stderr)
			}
			c.Run.Violate(report.Violation{Key: fKey(it, sym), Summary: fmt.Sprintf("item %s (%s): the derived function could not be obtained (%s)", it.ID, it.Shape, oc.Stage),
				Detail: trunc(oc.Stderr, 2000) + "\n--- item source ---\n" + trunc(it.Src, 1500), Files: persistTree(oc.Dir), Replay: replayScript("./p", "go build ./p || exit 1\nexit 0")})
		default:
			c.Run.Inconclusive(fmt.Sprintf("item %s: %s %s", it.ID, oc.Stage, firstLine(oc.Stderr)))
		}
	}
}

// classRoot strips per-vector detail from a violation class ("compose/fail-at-1-of-3/zero" stays, it is already a class).
func classRoot(s string) string { return s }
