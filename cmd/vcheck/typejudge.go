package main

import (
	"fmt"
	"os"
	"path/filepath"
	"sort"
	"strings"

	"verif/internal/pgen"
	"verif/internal/report"
)

// featureKey is the class-of-case part of a known-finding key.
func featureKey(it *pgen.TItem) string {
	var fs []string
	for _, t := range it.Tags {
		if strings.HasPrefix(t, "origin:") {
			continue
		}
		fs = append(fs, t)
	}
	sort.Strings(fs)
	return strings.Join(fs, ",")
}

func harnessReplay(prop string, id string, race bool) string {
	r := ""
	if race {
		r = "-race "
	}
	return replayScript("./p", fmt.Sprintf(`go build %s-o h ./cmd/h || { echo "harness does not compile"; exit 1; }
./h -prop %s -only %s -seed ${VERIF_SEED:-1} | tee out.jsonl
grep -q '"nviol":0' out.jsonl || exit 1
exit 0`, r, prop, id))
}

// persistTree returns the module tree of an outcome for the replay directory (plus mon sources are
// re-created by replay from /verif, so only user files and derived.gen.go are stored).
func persistTree(dir string) map[string]string {
	files := treeFiles(dir, "tree")
	// the replay needs the mon library: store it as well (small)
	monDir := filepath.Join(dir, "mon")
	ents, _ := os.ReadDir(monDir)
	for _, e := range ents {
		b, _ := os.ReadFile(filepath.Join(monDir, e.Name()))
		files[filepath.Join("tree", "mon", e.Name())] = string(b)
	}
	return files
}

type judgeOpts struct {
	Race bool
	// OwnOps returns the ops of the property's own anchor plugins for an item; used to decide
	// whether a generation/compile failure belongs to this property or is someone else's (then
	// the case is inconclusive, left to C01/C09).
	OwnOps func(it *pgen.TItem) []string
	// Extra per-item judgement on an ok outcome.
	OnOK func(oc *Outcome)
	// KeyOf maps a violation class inside the harness to a finding key.
	KeyOf func(it *pgen.TItem, class string) string
}

// judgeTypeOutcomes turns item outcomes into evaluations, distinct keys, samples and violations.
func (c *Ctx) judgeTypeOutcomes(outs []*Outcome, jo judgeOpts) {
	keyOf := jo.KeyOf
	if keyOf == nil {
		keyOf = func(it *pgen.TItem, class string) string { return class + "|" + featureKey(it) }
	}
	nsamples := 0
	for _, oc := range outs {
		it := oc.Item
		switch oc.Stage {
		case "ok":
			res := oc.Res
			if res.Skipped != "" {
				continue
			}
			c.Run.Eval(res.Evals)
			c.Run.Count("items", 1)
			for cl, n := range res.Classes {
				c.Run.Distinct(it.T.Shape() + "|" + cl)
				c.Run.Count("class:"+cl, n)
			}
			if nsamples < 4 && res.NViol == 0 {
				nsamples++
				s := itemWitness(it)
				s["evaluations"] = res.Evals
				s["classes"] = res.Classes
				c.Run.Sample(s)
			}
			seen := map[string]bool{}
			for _, v := range res.Viols {
				k := keyOf(it, v.Class)
				if seen[k] {
					continue
				}
				seen[k] = true
				c.Run.Violate(report.Violation{
					Key:     k,
					Summary: fmt.Sprintf("item %s type %s: %s (%d violating observations on this item)", it.ID, it.T.Expr("", nil), v.Class, res.NViol),
					Detail:  v.Detail,
					Files:   persistTree(oc.Dir),
					Replay:  harnessReplay(c.Prop, it.ID, jo.Race),
				})
			}
			if jo.OnOK != nil {
				jo.OnOK(oc)
			}
		case "crash":
			c.Run.Eval(1)
			c.Run.Violate(report.Violation{
				Key:     keyOf(it, "process-fatal"),
				Summary: fmt.Sprintf("item %s type %s: the harness process died while evaluating this item (runtime fatal error / race report / checkptr)", it.ID, it.T.Expr("", nil)),
				Detail:  oc.Stderr,
				Files:   persistTree(oc.Dir),
				Replay:  harnessReplay(c.Prop, it.ID, jo.Race),
			})
		case "generate", "compile":
			own := true
			if jo.OwnOps != nil {
				ownOps := jo.OwnOps(it)
				if len(ownOps) != len(it.Ops) {
					// retry with the property's own plugins only
					it2 := *it
					it2.Ops = ownOps
					b := TypeBatch{Name: "own-" + it.ID, U: universeOf(oc), Items: []pgen.TItem{it2}}
					if b.U != nil && len(ownOps) > 0 {
						r2 := c.runOneBatch(b, eopts{BuildOnly: true})
						own = len(r2) > 0 && r2[0].Stage != "ok"
					}
				}
			}
			if !own {
				c.Run.Inconclusive(fmt.Sprintf("item %s type %s: %s failed outside this property's own plugins: %s", it.ID, it.T.Expr("", nil), oc.Stage, firstLine(oc.Stderr)))
				continue
			}
			c.Run.Eval(1)
			sym := "exit0-does-not-compile"
			if oc.Stage == "generate" {
				sym = "generation-fails"
			}
			c.Run.Violate(report.Violation{
				Key:     keyOf(it, sym),
				Summary: fmt.Sprintf("item %s type %s ops %v: the derived functions this property is about could not be obtained (%s)", it.ID, it.T.Expr("", nil), it.Ops, oc.Stage),
				Detail:  trunc(oc.Stderr, 3000),
				Files:   persistTree(oc.Dir),
				Replay:  replayScript("./p", "go build ./p || exit 1\nexit 0"),
			})
		default:
			c.Run.Inconclusive(fmt.Sprintf("item %s: %s %s", it.ID, oc.Stage, firstLine(oc.Stderr)))
		}
	}
}

var outcomeUniverse = map[string]*pgen.Universe{}

// universeOf finds the universe an outcome's item was declared in (recorded at batch build time).
func universeOf(oc *Outcome) *pgen.Universe { return outcomeUniverse[oc.Item.ID] }

func rememberUniverses(batches []TypeBatch) {
	for _, b := range batches {
		for _, it := range b.Items {
			outcomeUniverse[it.ID] = b.U
		}
	}
}

func firstLine(s string) string {
	s = strings.TrimSpace(s)
	if i := strings.IndexByte(s, '\n'); i >= 0 {
		s = s[:i]
	}
	return trunc(s, 300)
}
