package main

import (
	"fmt"
	"os"
	"path/filepath"
	"regexp"
	"strings"
	"sync/atomic"

	"verif/internal/grun"
	"verif/internal/pgen"
)

// PlainCase is one harness-free package: items rendered as plain call sites.
type PlainCase struct {
	Name  string
	U     *pgen.Universe
	Items []pgen.PItem
	Flags []string          // goderive flags
	Extra map[string]string // extra files
}

// PlainOutcome is what was observed for a (possibly isolated) case.
type PlainOutcome struct {
	Case     PlainCase
	Gen      grun.Result
	Build    grun.Result
	Stage    string // ok | generate | compile
	Dir      string
	Touched  []string // files other than p/derived.gen.go that were created / changed / deleted by goderive
	Isolated bool
}

func hasTestForm(items []pgen.PItem) bool {
	for _, it := range items {
		if it.Form == "test" {
			return true
		}
	}
	return false
}

// runPlainCase generates and compiles one case. When split is true a failing case is isolated:
// first into singleton items, then into single ops, so that a verdict is about one
// (plugin, shape, call form).
func (c *Ctx) runPlainCase(pc PlainCase, split bool) []*PlainOutcome {
	dir := c.Env.Dir(pc.Name)
	files := pgen.RenderPlainPackage(pc.U, pc.Items)
	for k, v := range pc.Extra {
		files[k] = v
	}
	if err := grun.WriteTree(dir, files); err != nil {
		panic(err)
	}
	before := grun.Snapshot(dir)
	g := c.Goderive(dir, append(append([]string{}, pc.Flags...), "./p"))
	after := grun.Snapshot(dir)
	cr, del, ch := grun.Diff(before, after)
	var touched []string
	for _, p := range append(append(cr, del...), ch...) {
		if p != "p/derived.gen.go" && p != "p/" {
			touched = append(touched, p)
		}
	}
	oc := &PlainOutcome{Case: pc, Gen: g, Dir: dir, Touched: touched, Stage: "ok"}
	if g.TimedOut && g.Crash == "" && !g.CPUKill {
		oc.Stage = "timeout" // wall-clock watchdog: inconclusive (hangs are judged on CPU time)
	} else if g.Exit != 0 || g.Crash != "" || g.CPUKill {
		oc.Stage = "generate"
	} else {
		if hasTestForm(pc.Items) {
			oc.Build = c.Go(dir, "test", "-c", "-o", os.DevNull, "./p")
		} else {
			oc.Build = c.Go(dir, "build", "./p")
		}
		if oc.Build.TimedOut {
			oc.Stage = "timeout"
		} else if oc.Build.Exit != 0 {
			oc.Stage = "compile"
		}
	}
	if oc.Stage == "ok" || oc.Stage == "timeout" || !split {
		return []*PlainOutcome{oc}
	}
	// isolation budget: a tree in which everything fails must not explode into thousands of runs
	if atomic.AddInt64(&c.isolations, 1) > 40 {
		return []*PlainOutcome{oc}
	}
	// isolate
	var subs []PlainCase
	if len(pc.Items) > 1 {
		for i := range pc.Items {
			subs = append(subs, PlainCase{Name: fmt.Sprintf("%s-i%d", pc.Name, i), U: pc.U, Items: pc.Items[i : i+1], Flags: pc.Flags, Extra: pc.Extra})
		}
	} else if len(pc.Items) == 1 && len(pc.Items[0].Ops) > 1 {
		for i, op := range pc.Items[0].Ops {
			it := pc.Items[0]
			it.Ops = []string{op}
			subs = append(subs, PlainCase{Name: fmt.Sprintf("%s-o%d", pc.Name, i), U: pc.U, Items: []pgen.PItem{it}, Flags: pc.Flags, Extra: pc.Extra})
		}
	} else {
		return []*PlainOutcome{oc}
	}
	os.RemoveAll(dir)
	res := make([][]*PlainOutcome, len(subs))
	parallel(len(subs), 4, func(i int) {
		res[i] = c.runPlainCase(subs[i], true)
		for _, x := range res[i] {
			x.Isolated = true
		}
	})
	var out []*PlainOutcome
	anyFail := false
	for _, r := range res {
		for _, x := range r {
			if x.Stage != "ok" {
				anyFail = true
			}
		}
		out = append(out, r...)
	}
	if !anyFail {
		// the failure only shows in combination: report the combination itself
		oc2 := c.runPlainCase(pc, false)
		for _, x := range oc2 {
			x.Isolated = false
		}
		return oc2
	}
	return out
}

var (
	rePos    = regexp.MustCompile(`[\w./-]*\.go:\d+(:\d+)?:?\s*`)
	reNum    = regexp.MustCompile(`\d+`)
	reQuoted = regexp.MustCompile(`"[^"]*"`)
)

// symptom normalises the first error line of a goderive / compiler message into a stable class:
// positions, numbers and generated identifiers (item ids, wrapper names) are abstracted.
func symptom(msg string) string {
	for _, ln := range strings.Split(msg, "\n") {
		ln = strings.TrimSpace(ln)
		if ln == "" || strings.HasPrefix(ln, "#") || strings.HasPrefix(ln, "could not yet generate") || strings.HasPrefix(ln, "FAIL") || strings.HasPrefix(ln, "warning: GOCOVERDIR") {
			continue
		}
		ln = rePos.ReplaceAllString(ln, "")
		ln = regexp.MustCompile(`I\d+x\d+`).ReplaceAllString(ln, "ID")
		ln = regexp.MustCompile(`\b[WR]\d+\b`).ReplaceAllString(ln, "W")
		ln = reNum.ReplaceAllString(ln, "N")
		ln = strings.Join(strings.Fields(ln), "_")
		if len(ln) > 160 {
			ln = ln[:160]
		}
		return ln
	}
	return "(no message)"
}

func plainFiles(oc *PlainOutcome) map[string]string {
	return treeFiles(oc.Dir, "tree")
}

func plainReplay(oc *PlainOutcome) string {
	build := "go build ./p || exit 1"
	if hasTestForm(oc.Case.Items) {
		build = "go test -c -o /dev/null ./p || exit 1"
	}
	return replayScript(strings.Join(append(append([]string{}, oc.Case.Flags...), "./p"), " ")+" || exit 1", build+"\nexit 0")
}

func describePlain(oc *PlainOutcome) string {
	var parts []string
	for _, it := range oc.Case.Items {
		parts = append(parts, fmt.Sprintf("%s form=%s ops=%v", it.T.Expr("", nil), it.Form, it.Ops))
	}
	s := strings.Join(parts, "; ")
	return trunc(s, 400)
}

func readDerived(dir string) string {
	b, _ := os.ReadFile(filepath.Join(dir, "p", "derived.gen.go"))
	return string(b)
}
