package main

import (
	"fmt"
	"math/rand"
	"sort"
	"strings"

	"verif/internal/pgen"
)

// shapeSel describes which shapes a check wants.
type shapeSel struct {
	Ops        func(t *pgen.Type, form string) []string // ops for an item (nil/empty = skip item)
	Forms      []string                                 // "top", "field"
	QuickDeep  int                                      // number of depth-2 shapes sampled in quick tier
	QuickRand  int                                      // number of random deeper shapes in quick tier
	ThorRand   int                                      // random deeper shapes in thorough tier
	BatchSize  int
	KeepShape  func(t *pgen.Type) bool // optional filter on the shape itself
	ExtraTypes func(s *pgen.Std) []*pgen.Type
}

// planned is a shape index plan shared by all batches: indices into Enumerate(2) and seeds of
// random shapes.
type planned struct {
	enumIdx  []int
	randSeed []int64
}

func (c *Ctx) planShapes(sel shapeSel) planned {
	u := pgen.NewUniverse("p")
	std := pgen.NewStd(u)
	all := std.Enumerate(2)
	shallow := len(std.Enumerate(1))
	var p planned
	if c.Quick {
		for i := 0; i < shallow; i++ {
			p.enumIdx = append(p.enumIdx, i)
		}
		// key-class extras live at the end of Enumerate(2)
		extras := len(std.Keys()[2:]) * 3
		deep := make([]int, 0, len(all)-shallow)
		for i := shallow; i < len(all)-extras; i++ {
			deep = append(deep, i)
		}
		r := rand.New(rand.NewSource(c.Seed*31 + 5))
		r.Shuffle(len(deep), func(i, j int) { deep[i], deep[j] = deep[j], deep[i] })
		n := sel.QuickDeep
		if n > len(deep) {
			n = len(deep)
		}
		p.enumIdx = append(p.enumIdx, deep[:n]...)
		for i := len(all) - extras; i < len(all); i++ {
			p.enumIdx = append(p.enumIdx, i)
		}
		sort.Ints(p.enumIdx)
		for i := 0; i < sel.QuickRand; i++ {
			p.randSeed = append(p.randSeed, c.Seed*1000003+int64(i))
		}
	} else {
		for i := range all {
			p.enumIdx = append(p.enumIdx, i)
		}
		for i := 0; i < sel.ThorRand; i++ {
			p.randSeed = append(p.randSeed, c.Seed*1000003+int64(i))
		}
	}
	return p
}

// buildTypeBatches renders the plan into batches, each with its own universe.
func (c *Ctx) buildTypeBatches(sel shapeSel) []TypeBatch {
	plan := c.planShapes(sel)
	if sel.BatchSize == 0 {
		sel.BatchSize = 40
	}
	type spec struct {
		enum int
		seed int64
		rnd  bool
	}
	var specs []spec
	for _, i := range plan.enumIdx {
		specs = append(specs, spec{enum: i})
	}
	for _, s := range plan.randSeed {
		specs = append(specs, spec{seed: s, rnd: true})
	}
	// interleave so that every batch gets a mix of cheap and expensive shapes
	r := rand.New(rand.NewSource(c.Seed*17 + 3))
	r.Shuffle(len(specs), func(i, j int) { specs[i], specs[j] = specs[j], specs[i] })
	var batches []TypeBatch
	perBatch := sel.BatchSize / len(sel.Forms)
	if perBatch < 1 {
		perBatch = 1
	}
	nb := (len(specs) + perBatch - 1) / perBatch
	for bi := 0; len(specs) > 0; bi++ {
		k := perBatch
		if k > len(specs) {
			k = len(specs)
		}
		cur := specs[:k]
		specs = specs[k:]
		u := pgen.NewUniverse("p")
		std := pgen.NewStd(u)
		all := std.Enumerate(2)
		b := TypeBatch{Name: fmt.Sprintf("%s-b%02d", strings.ToLower(c.Prop), bi), U: u}
		add := func(t *pgen.Type, origin string) {
			if sel.KeepShape != nil && !sel.KeepShape(t) {
				return
			}
			for _, form := range sel.Forms {
				it := pgen.TItem{T: t, Tags: append([]string{"form:" + form, "origin:" + origin}, t.Features()...)}
				if form == "field" {
					it.T = pgen.Ptr(std.Wrapper(t))
				}
				it.Ops = sel.Ops(t, form)
				if len(it.Ops) == 0 {
					continue
				}
				it.ID = fmt.Sprintf("I%02dx%03d", bi, len(b.Items))
				b.Items = append(b.Items, it)
			}
		}
		for _, s := range cur {
			if s.rnd {
				rr := rand.New(rand.NewSource(s.seed))
				add(std.Random(rr, 2+rr.Intn(3)), "random")
			} else {
				add(all[s.enum], "enum")
			}
		}
		if sel.ExtraTypes != nil {
			// the extra shapes are spread over the batches in runs of 8 (neighbours stay together), so that no
			// single package and monitor process carries all of them
			for ei, t := range sel.ExtraTypes(std) {
				if (ei/8)%nb == bi {
					add(t, "extra")
				}
			}
		}
		if len(b.Items) > 0 {
			batches = append(batches, b)
		}
	}
	// small packages of their own for types whose treatment may depend on what the goderive process
	// saw before them (same-named types of different packages in either order)
	if sel.ExtraTypes != nil {
		for si := 0; si < len(soloTypeSets(pgen.NewStd(pgen.NewUniverse("p")))); si++ {
			u := pgen.NewUniverse("p")
			std := pgen.NewStd(u)
			bi := len(batches)
			b := TypeBatch{Name: fmt.Sprintf("%s-solo%02d", strings.ToLower(c.Prop), si), U: u}
			for _, t := range soloTypeSets(std)[si] {
				if sel.KeepShape != nil && !sel.KeepShape(t) {
					continue
				}
				it := pgen.TItem{T: t, Tags: append([]string{"form:top", "origin:solo"}, t.Features()...)}
				it.Ops = sel.Ops(t, "top")
				if len(it.Ops) == 0 {
					continue
				}
				it.ID = fmt.Sprintf("I%02dx%03d", bi, len(b.Items))
				b.Items = append(b.Items, it)
			}
			if len(b.Items) > 0 {
				batches = append(batches, b)
			}
		}
	}
	// two items of one package must not ask the same plugin for mutually assignable types under
	// different names (goderive rejects that as a duplicate by design)
	dedupeBatches(batches)
	for bi := range batches {
		var keep []pgen.TItem
		for _, it := range batches[bi].Items {
			if len(it.Ops) > 0 {
				keep = append(keep, it)
			}
		}
		batches[bi].Items = keep
	}
	return batches
}

// itemWitness renders an item for evidence samples.
func itemWitness(it *pgen.TItem) map[string]any {
	return map[string]any{"id": it.ID, "type": it.T.Expr("", nil), "shape": it.T.Shape(), "ops": it.Ops, "tags": it.Tags}
}

// topIsCustom reports a top-level value type whose own Equal/Compare method is custom (the
// property defines no structural answer there).
func topIsCustom(t *pgen.Type) bool {
	return t.K == pgen.KNamed && (strings.HasPrefix(t.EqualMethod, "custom") || strings.HasPrefix(t.CompareMethod, "custom"))
}

// buildTypeBatchesMulti is buildTypeBatches with several items (op sets) per shape.
func (c *Ctx) buildTypeBatchesMulti(sel shapeSel, opSets func(t *pgen.Type) [][]string) []TypeBatch {
	sel.Forms = []string{"top"}
	sel.Ops = func(t *pgen.Type, form string) []string { return []string{"x"} }
	batches := c.buildTypeBatches(sel)
	for bi := range batches {
		var items []pgen.TItem
		for _, it := range batches[bi].Items {
			for k, ops := range opSets(it.T) {
				if len(ops) == 0 {
					continue
				}
				n := it
				n.ID = fmt.Sprintf("%s%c", it.ID, 'a'+k)
				n.Ops = append([]string{}, ops...)
				n.Tags = append(append([]string{}, it.Tags...), "helper:"+ops[len(ops)-1])
				items = append(items, n)
			}
		}
		batches[bi].Items = items
	}
	return batches
}

// commonExtras are shapes every type-directed check includes once, regardless of sampling: named
// slice / map / array / pointer types (a generator that looks at the declared instead of the
// underlying type goes wrong exactly there), embedded structs, types with derived Equal/Compare
// methods, named bool / uint8, and types from two imported packages with the same name (the second
// one gets a file-local alias in derived.gen.go).
// soloTypeSets: each set becomes a package of its own (see buildTypeBatches).
func soloTypeSets(s *pgen.Std) [][]*pgen.Type {
	return [][]*pgen.Type{
		{pgen.Ptr(s.SM1)},            // fields: c/dup.T (flat) before a/dup.T and b/dup.T
		{pgen.Ptr(s.SM2)},            // fields: b/dup.T before c/dup.T (flat) before []a/dup.T
		{s.XDupC, pgen.Ptr(s.XDupA)}, // two items: the flat T first
		{pgen.Ptr(s.XDupB), s.XDupC}, // the flat T last
	}
}

func commonExtras(s *pgen.Std) []*pgen.Type {
	return []*pgen.Type{s.NSlice, s.NMap, s.NArr, s.NPtr, pgen.Ptr(s.NSlice), pgen.Slice(s.NSlice), pgen.Map(pgen.B("string"), s.NMap),
		s.SE, pgen.Ptr(s.SE), s.SEq, pgen.Slice(s.SEq), s.NBool, pgen.Slice(s.NBool), s.NU8, pgen.Slice(s.NU8),
		s.XDupA, pgen.Ptr(s.XDupB), pgen.Slice(s.XDupB), s.XN, pgen.Map(s.XN, s.XDupA),
		pgen.Slice(pgen.B("uint8")), pgen.Array(0, pgen.B("int")), pgen.Array(1, s.SP), pgen.Array(3, pgen.Ptr(pgen.B("string"))),
		pgen.Ptr(pgen.Ptr(s.SV)), pgen.Ptr(pgen.Ptr(pgen.B("int"))), pgen.Map(pgen.B("string"), pgen.Array(2, s.SP)),
		// underscore-prefixed and blank field names; field types from a third package; a type with a
		// hand-written Compare/Equal behind a top-level pointer (structural there); arrays of slices as map
		// elements (a reused scratch array would alias them)
		s.SU, pgen.Ptr(s.SU), pgen.Slice(s.SU), s.XT, pgen.Ptr(s.XT), pgen.Slice(s.XT), pgen.Ptr(s.SCi),
		s.NDigest, pgen.Slice(s.NDigest), pgen.Map(pgen.B("string"), s.NDigest), s.NStrS, pgen.Slice(s.NStrS), pgen.Map(s.NStrS, s.NIntS), s.NIntS, pgen.Ptr(s.NIntS),
		s.SM1, pgen.Ptr(s.SM1), pgen.Ptr(s.SM2), pgen.Slice(s.SM2), s.XDupC,
		s.SPad, pgen.Slice(s.SPad), pgen.Map(pgen.B("string"), s.SPad), pgen.Ptr(s.SCn), pgen.Slice(pgen.Ptr(s.SCn)), pgen.Map(pgen.B("int"), pgen.Ptr(s.SCn)), pgen.Slice(s.SCn), pgen.Ptr(pgen.Ptr(s.SCn)),
		s.XB, pgen.Ptr(s.XB), pgen.Slice(s.XB), s.XO, pgen.Ptr(s.XO), pgen.Slice(s.XO), pgen.Map(pgen.B("string"), pgen.Ptr(s.XO)), s.SH, pgen.Ptr(s.SH), pgen.Slice(s.SH), pgen.Array(2, s.SH), pgen.Map(pgen.B("int"), s.SH), s.SHH, pgen.Ptr(s.SHH), pgen.Slice(s.SHH), pgen.Array(2, s.SCi),
		pgen.Ptr(s.SCv), pgen.Ptr(pgen.Ptr(s.SCv)), pgen.Ptr(pgen.Ptr(s.SCi)), pgen.Slice(s.SCv), pgen.Slice(pgen.Ptr(s.SCv)), pgen.Map(pgen.B("string"), s.SCv), pgen.Map(pgen.B("string"), s.SCi), pgen.Map(pgen.B("int"), pgen.Ptr(s.SCi)), pgen.Slice(s.SCi), pgen.Slice(pgen.Ptr(s.SCi)),
		pgen.Map(pgen.B("string"), pgen.Array(2, pgen.Slice(pgen.B("int")))), pgen.Map(pgen.B("float64"), pgen.Ptr(pgen.B("int"))), pgen.Map(pgen.B("complex128"), pgen.B("string"))}
}
