package main

import (
	"fmt"
	"io/fs"
	"math/rand"
	"os"
	"path/filepath"
	"runtime"
	"sort"
	"strings"
	"sync"
	"sync/atomic"
	"time"

	verif "verif"
	"verif/internal/env"
	"verif/internal/grun"
	"verif/internal/report"
)

// Ctx is the context of one check execution.
type Ctx struct {
	Prop  string
	Tier  string
	Seed  int64
	Env   *env.Env
	Run   *report.Run
	R     *rand.Rand
	Quick bool
	// anchors are repository packages (relative, e.g. "plugin/equal") whose statement coverage is reported
	Anchors    []string
	isolations int64
}

func newCtx(prop, tier string, seed int64, level string) (*Ctx, error) {
	e, err := env.Setup(prop)
	if err != nil {
		return nil, err
	}
	t0 := time.Now()
	if err := e.BuildGoderive(); err != nil {
		e.Cleanup()
		return nil, err
	}
	c := &Ctx{Prop: prop, Tier: tier, Seed: seed, Env: e, Quick: tier == "quick"}
	c.Run = report.New(prop, tier, seed, level, e.VerifDir)
	c.R = rand.New(rand.NewSource(seed*7919 + 13))
	c.Run.Extra("goderive_build_s", time.Since(t0).Seconds())
	c.Run.Extra("repo", e.Repo)
	return c, nil
}

func (c *Ctx) finishCoverage() {
	if len(c.Anchors) == 0 {
		return
	}
	cov := c.Env.Coverage()
	out := map[string]float64{}
	for _, a := range c.Anchors {
		if p, ok := cov[a]; ok {
			out[a] = p
		}
	}
	c.Run.Extra("anchor_statement_coverage_percent", out)
}

// Goderive runs the generator built from the working tree in dir.
func (c *Ctx) Goderive(dir string, args []string, extraEnv ...string) grun.Result {
	return grun.Run(c.Env.Goderive, args, grun.Opts{Dir: dir, Env: c.Env.ScratchEnv(extraEnv...), Wall: 5 * time.Minute, CPUSecs: 90, MemKB: 4000000})
}

// Go runs the go tool in a scratch module.
func (c *Ctx) Go(dir string, args ...string) grun.Result {
	// -trimpath: scratch modules live at a fresh temporary path each; without it every one of them
	// compiles its identical copy of the monitor library again and the build cache grows by it
	if len(args) > 0 && (args[0] == "build" || args[0] == "vet" || args[0] == "test") {
		args = append([]string{args[0], "-trimpath"}, args[1:]...)
	}
	return grun.Run(c.Env.GoBin(), args, grun.Opts{Dir: dir, Env: c.Env.ScratchEnv(), Wall: 15 * time.Minute})
}

// WriteMon copies the monitor library into <dir>/mon.
func WriteMon(dir string) error {
	ents, err := fs.ReadDir(verif.MonFS, "mon")
	if err != nil {
		return err
	}
	os.MkdirAll(filepath.Join(dir, "mon"), 0o755)
	for _, e := range ents {
		if strings.HasSuffix(e.Name(), "_test.go") {
			continue
		}
		b, _ := verif.MonFS.ReadFile("mon/" + e.Name())
		if err := os.WriteFile(filepath.Join(dir, "mon", e.Name()), b, 0o644); err != nil {
			return err
		}
	}
	return nil
}

// parallel runs f(i) for i in [0,n) on up to workers goroutines.
func parallel(n, workers int, f func(i int)) {
	if workers <= 0 {
		workers = runtime.NumCPU()
	}
	var wg sync.WaitGroup
	ch := make(chan int)
	for w := 0; w < workers; w++ {
		wg.Add(1)
		go func() {
			defer wg.Done()
			for i := range ch {
				f(i)
			}
		}()
	}
	for i := 0; i < n; i++ {
		ch <- i
	}
	close(ch)
	wg.Wait()
}

// treeFiles reads a directory tree into a map (for replay persistence), skipping binaries.
func treeFiles(root string, prefix string) map[string]string {
	out := map[string]string{}
	filepath.WalkDir(root, func(p string, d fs.DirEntry, err error) error {
		if err != nil || d.IsDir() {
			return nil
		}
		rel, _ := filepath.Rel(root, p)
		if strings.HasPrefix(rel, "mon/") || rel == "h" || strings.HasSuffix(rel, ".test") {
			return nil
		}
		info, _ := d.Info()
		if info.Size() > 1<<20 {
			return nil
		}
		b, _ := os.ReadFile(p)
		out[filepath.Join(prefix, rel)] = string(b)
		return nil
	})
	return out
}

func sortedKeys[V any](m map[string]V) []string {
	ks := make([]string, 0, len(m))
	for k := range m {
		ks = append(ks, k)
	}
	sort.Strings(ks)
	return ks
}

func trunc(s string, n int) string {
	if len(s) > n {
		return s[:n] + "…"
	}
	return s
}

// replayScript builds a self-contained replay.sh for a module tree stored under tree/ in the
// replay directory: build goderive from $VERIF_REPO (default /repo), run it, run the given
// follow-up shell lines inside the copy.
func replayScript(goderiveArgs string, followUp string) string {
	return fmt.Sprintf(`#!/bin/sh
# Replays one recorded case: exits non-zero if the violation reproduces.
set -u
HERE=$(cd "$(dirname "$0")" && pwd)
REPO=${VERIF_REPO:-/repo}
GR=$(cd "$REPO" && GOPROXY=off GOFLAGS= go env GOROOT)
export PATH=$GR/bin:$PATH GOTOOLCHAIN=local GOPROXY=off GOSUMDB=off
W=$(mktemp -d)
trap 'rm -rf "$W"' EXIT
(cd "$REPO" && GOFLAGS= go build -tags verif -o "$W/goderive" .) || exit 3
cp -r "$HERE/tree" "$W/m"
cd "$W/m"
export GOFLAGS=-mod=mod
"$W/goderive" %s
echo "goderive exit=$?"
%s
`, goderiveArgs, followUp)
}

func atomicAdd(p *int64, d int64) int64 { return atomic.AddInt64(p, d) }
