package main

import (
	"fmt"
	"math/rand"
	"strings"

	"verif/internal/pgen"
)

func init() {
	register("C15", "exploration", checkC15)
	register("C16", "exploration", checkC16)
	register("C17", "exploration", checkC17)
	register("C18", "exploration", checkC18)
}

var valueTypes = []string{"int", "string", "bool", "float64", "NInt", "NStr", "SV", "*SV", "[]int", "map[string]int", "Arr", "[2]int", "any", "SP", "*int", "[]string"}

// hostileParamNames: identifiers generated code plausibly uses for its own variables.
var hostileParamNames = []string{"last", "first", "rest", "arg", "args", "x", "y", "a", "b", "fn", "fun", "result", "res", "r", "ret", "tmp", "t",
	"param", "param0", "param_0", "param1", "k", "key", "val", "value", "i", "j", "n", "s", "c", "ch", "wg", "ok", "e", "curried", "applied", "flipped", "tuple"}

func sigKey(kind string, p, r []string) string {
	return kind + "(" + strings.Join(p, ",") + ")(" + strings.Join(r, ",") + ")"
}

// c15Items builds the re-plumbing items.
func c15Items(c *Ctx) []pgen.FItem {
	r := rand.New(rand.NewSource(c.Seed*389 + 3))
	var items []pgen.FItem
	seen := map[string]bool{}
	n := 0
	add := func(kind string, s pgen.FSig) {
		plugins := []string{kind}
		if kind == "uncurrycurry" {
			plugins = []string{"curry", "uncurry"}
		}
		for _, pl := range plugins {
			p := s.P
			if pl == "uncurry" && kind == "uncurry" {
				p = s.P
			}
			if seen[sigKey(pl, p, s.R)] {
				return
			}
		}
		for _, pl := range plugins {
			seen[sigKey(pl, s.P, s.R)] = true
		}
		n++
		items = append(items, pgen.PlumbItem(fmt.Sprintf("F%03d", n), kind, s))
	}
	modes := []string{"named", "blank", "unnamed", "reserved", "paramlike", "paramlike2"}
	// systematic: every arity 2..5, every result count 0..3, every naming mode; first two parameter
	// types identical (a swap is invisible to the type checker) or different
	for np := 2; np <= 5; np++ {
		for nr := 0; nr <= 3; nr++ {
			for mi, mode := range modes {
				if c.Quick && (np+nr+mi)%2 != int(c.Seed%2) {
					continue
				}
				s := pgen.FSig{Mode: mode}
				same := (np*5+nr*3+mi*7)%3 != 0 // independent of the quick-tier sampling above
				for i := 0; i < np; i++ {
					t := valueTypes[(np*3+nr*5+mi*7+i*2)%len(valueTypes)]
					if same && i < 2 {
						t = []string{"int", "string", "[]int"}[(np+nr)%3]
					}
					if same && i == np-1 && np > 2 {
						t = s.P[np-2] // last two identical as well (Apply binds the last one)
					}
					s.P = append(s.P, t)
				}
				for i := 0; i < nr; i++ {
					s.R = append(s.R, valueTypes[(np+nr*3+mi+i*5)%len(valueTypes)])
				}
				for _, kind := range []string{"curry", "flip", "apply", "uncurry", "uncurrycurry"} {
					s2 := s
					// keep signatures of different kinds distinct so that nested curry/uncurry items do not collide
					s2.P = append([]string{}, s.P...)
					if kind == "uncurrycurry" {
						s2.P[len(s2.P)-1] = "NStr"
						s2.P[0] = "NInt"
					}
					add(kind, s2)
				}
			}
		}
	}
	for i := 0; i < tierN(c, 20, 200); i++ {
		s := pgen.RandSig(r, 2, 5, 3, valueTypes)
		add([]string{"curry", "flip", "apply", "uncurry"}[r.Intn(4)], s)
	}
	// named results (err, f, success, ...) together with every parameter naming mode
	for mi, mode := range modes {
		if mode == "reserved" {
			continue // its parameter names (f, err, ...) are the result names used here
		}
		for nr := 1; nr <= 3; nr++ {
			for _, kind := range []string{"curry", "flip", "apply", "uncurry"} {
				s := pgen.FSig{Mode: mode, NamedResults: true}
				for i := 0; i < 2+(mi+nr)%2; i++ {
					s.P = append(s.P, valueTypes[(mi*5+nr*3+i*7+len(kind))%len(valueTypes)])
				}
				for i := 0; i < nr; i++ {
					s.R = append(s.R, []string{"error", "int", "string", "bool"}[(mi+nr+i)%4])
				}
				add(kind, s)
			}
		}
	}
	// a result that is itself a function (Uncurry must stop at the first level)
	add("curry", pgen.FSig{P: []string{"int", "string"}, R: []string{"func(int) int"}, Mode: "named"})
	add("uncurry", pgen.FSig{P: []string{"int", "bool"}, R: []string{"func(string) int"}, Mode: "named"})
	add("uncurrycurry", pgen.FSig{P: []string{"NInt", "int", "NStr"}, R: []string{"func() int"}, Mode: "named"})
	add("flip", pgen.FSig{P: []string{"string", "int"}, R: []string{"func(int, string) bool"}, Mode: "named"})
	// a dictionary of parameter names a generator might itself use for the variables it introduces: each
	// name once at the first, a middle and the last position of a function whose parameters all have the
	// same type (so that a capture or shadowing type-checks and only shows in the position-tagged values)
	k := 0
	for _, name := range hostileParamNames {
		for pos := 0; pos < 3; pos++ {
			for _, kind := range []string{"curry", "flip", "apply", "uncurry"} {
				names := []string{"", "", ""}
				names[pos] = name
				for ; k < 4096; k++ {
					T, R := valueTypes[k%len(valueTypes)], valueTypes[(k/len(valueTypes))%len(valueTypes)]
					s := pgen.FSig{P: []string{T, T, T}, R: []string{R}, Mode: "names:" + strings.Join(names, ",")}
					if (k/(len(valueTypes)*len(valueTypes)))%2 == 1 {
						s.P = append(s.P, T)
					}
					if !seen[sigKey(kind, s.P, s.R)] {
						add(kind, s)
						break
					}
				}
			}
		}
	}
	// single-parameter apply
	add("apply", pgen.FSig{P: []string{"int"}, R: []string{"string"}, Mode: "named"})
	// tuples
	for k := 1; k <= 5; k++ {
		for v := 0; v < tierN(c, 2, 6); v++ {
			var ts []string
			for i := 0; i < k; i++ {
				ts = append(ts, valueTypes[(k*5+v*3+i*7)%len(valueTypes)])
			}
			if seen[sigKey("tuple", ts, nil)] {
				continue
			}
			seen[sigKey("tuple", ts, nil)] = true
			n++
			items = append(items, pgen.TupleItem(fmt.Sprintf("F%03d", n), ts))
		}
	}
	return items
}

func checkC15(c *Ctx) {
	c.Anchors = []string{"plugin/curry", "plugin/uncurry", "plugin/flip", "plugin/apply", "plugin/tuple"}
	c.Run.Rule = "items = (helper, signature): systematically every arity 2-5 x 0-3 results x parameter naming (named, blank, unnamed func type, names the generator itself uses such as f/err/v) with the first two (and last two) parameter types identical or different, plus seeded random signatures over 16 value types, for Curry, Uncurry, Flip, Apply, Uncurry(Curry(f)); Tuple over 1-5 values. Oracle: the instrumented original function's call log must contain exactly one call with every argument in its proper position (position-tagged argument values make swaps visible), results must equal a direct call. distinct_nontrivial = distinct (helper/arity/results/naming, check class)"
	c.Run.Assume = []string{"instrumented functions are deterministic in their arguments"}
	c.Run.Floor = 30
	outs := c.runFuncBatches(c15Items(c), 24, true, tierN(c, 8, 20))
	c.judgeFuncOutcomes(outs, true)
}

func pick(r *rand.Rand, xs []string, n int) []string {
	out := make([]string, n)
	for i := range out {
		out[i] = xs[r.Intn(len(xs))]
	}
	return out
}

func checkC16(c *Ctx) {
	c.Anchors = []string{"plugin/compose", "plugin/fmap", "plugin/join", "plugin/traverse", "plugin/toerror"}
	c.Run.Rule = "items: Compose chains of 2-4 instrumented stages with 0-2 initial parameters and 0-3 intermediate / final results over value types (basic, named basic, struct, array, pointer, slice, map, interface), evaluated for every choice of the failing stage (none / each index; the failing stage returns non-zero garbage next to its error); the error forms of Fmap (f with 0,1,2,3 results) and Join (0-3 results, two-argument and tuple form) with outer / inner failure; Traverse over lists of length 0-6 (and nil) failing at every index; ToError over signatures with 0-3 passed-through results. Oracle: stage call logs (each stage once, in order, with the previous results as arguments, none after the failing one), returned error identical (==) to the injected object, non-error results are zero values (nil slice for Traverse), success path equal to the hand-written composition. distinct_nontrivial = distinct (helper shape, failing-position class)"
	c.Run.Assume = []string{"stages are deterministic in their arguments"}
	c.Run.Floor = 30
	outs := c.runFuncBatches(c16Items(c), 20, true, tierN(c, 4, 10))
	c.judgeFuncOutcomes(outs, true)
}

func c16Items(c *Ctx) []pgen.FItem {
	r := rand.New(rand.NewSource(c.Seed*401 + 5))
	types := []string{"int", "string", "bool", "float64", "NInt", "NStr", "SV", "*SV", "[]int", "map[string]int", "Arr", "[2]int", "any", "SP", "complex128", "NCx", "error", "uint8"}
	var items []pgen.FItem
	seen := map[string]bool{}
	n := 0
	id := func() string { n++; return fmt.Sprintf("E%03d", n) }
	// every type once as the single result of a failing chain, a failing fmap and a failing join (the zero
	// value of every kind has to be spelled), and fmap over endomorphisms (f: A -> A)
	for ti, t := range types {
		if t == "error" {
			continue
		}
		if c.Quick && ti%2 != int(c.Seed%2) && t != "complex128" && t != "NCx" {
			continue
		}
		key := sigKey("compose", nil, nil) + "/" + t + "/" + t
		if !seen[key] {
			seen[key] = true
			items = append(items, pgen.ComposeItem(id(), nil, [][]string{{t}, {t}}))
		}
		if !seen[sigKey("fmap", []string{t}, []string{t})] {
			seen[sigKey("fmap", []string{t}, []string{t})] = true
			items = append(items, pgen.FmapErrItem(id(), t, []string{t}))
		}
		if !seen[sigKey(fmt.Sprint("join", false), nil, []string{t})] {
			seen[sigKey(fmt.Sprint("join", false), nil, []string{t})] = true
			items = append(items, pgen.JoinErrItem(id(), []string{t}, false))
		}
	}
	// compose: systematic small space + random
	for k := 2; k <= 4; k++ {
		for v := 0; v < tierN(c, 8, 40); v++ {
			ins := pick(r, types, r.Intn(3))
			outs := make([][]string, k)
			for j := range outs {
				outs[j] = pick(r, types, r.Intn(4))
			}
			if v == 0 {
				outs[k-1] = []string{types[(k*3)%len(types)]} // a plain chain first
			}
			if v == 1 {
				outs[0] = nil // a stage that returns only an error
			}
			if v == 2 {
				outs[k-1] = nil // no final results
			}
			key := sigKey("compose", ins, nil)
			for _, o := range outs {
				key += "/" + strings.Join(o, ",")
			}
			if seen[key] {
				continue
			}
			seen[key] = true
			items = append(items, pgen.ComposeItem(id(), ins, outs))
		}
	}
	for i, a := range types {
		for nr := 0; nr <= 3; nr++ {
			if c.Quick && (i+nr)%3 != int(c.Seed%3) {
				continue
			}
			rs := make([]string, nr)
			for j := range rs {
				rs[j] = types[(i*2+nr+j*3)%len(types)]
			}
			if seen[sigKey("fmap", []string{a}, rs)] {
				continue
			}
			seen[sigKey("fmap", []string{a}, rs)] = true
			items = append(items, pgen.FmapErrItem(id(), a, rs))
		}
	}
	for i := 0; i < tierN(c, 14, 60); i++ {
		rs := pick(r, types, i%4)
		tuple := i%2 == 1 && len(rs) > 0
		if seen[sigKey(fmt.Sprint("join", tuple), nil, rs)] {
			continue
		}
		seen[sigKey(fmt.Sprint("join", tuple), nil, rs)] = true
		items = append(items, pgen.JoinErrItem(id(), rs, tuple))
	}
	for i := 0; i < tierN(c, 8, 40); i++ {
		a, b := types[r.Intn(len(types))], types[r.Intn(len(types))]
		if seen[sigKey("traverse", []string{a}, []string{b})] {
			continue
		}
		seen[sigKey("traverse", []string{a}, []string{b})] = true
		items = append(items, pgen.TraverseItem(id(), a, b))
	}
	for i := 0; i < tierN(c, 12, 60); i++ {
		s := pgen.RandSig(r, 0, 3, 3, types)
		if seen[sigKey("toerror", s.P, s.R)] {
			continue
		}
		seen[sigKey("toerror", s.P, s.R)] = true
		s.NamedResults = i%2 == 1
		items = append(items, pgen.ToErrorItem(id(), s))
	}
	return items
}

func checkC17(c *Ctx) {
	c.Anchors = []string{"plugin/fmap", "plugin/join"}
	c.Run.Rule = "items: Fmap over slices for (element, result) type pairs with lists of length 0-9 and nil (spare capacity present); Fmap over strings for result types with 20 strings (empty, ASCII, 2/3/4-byte runes, mixed, truncated and invalid encodings, NUL); Join of slices of slices with outer length 0-5 and nil, inner lists nil / empty / 1-3 elements in 4 layouts; Join of string lists. Oracle: output length (in runes for strings), out[i] == f(in[i]) against a direct call, f's call log == the input in order, concatenation for Join (nil for nil), canonical encoding of the inputs unchanged. distinct_nontrivial = distinct (helper, types, length/encoding class)"
	c.Run.Floor = 20
	outs := c.runFuncBatches(c17Items(c), 20, true, 8)
	c.judgeFuncOutcomes(outs, true)
}

func c17Items(c *Ctx) []pgen.FItem {
	r := rand.New(rand.NewSource(c.Seed*409 + 7))
	types := []string{"int", "string", "bool", "float64", "NInt", "SV", "*SV", "[]int", "map[string]int", "Arr", "any", "SP", "rune"}
	var items []pgen.FItem
	seen := map[string]bool{}
	n := 0
	id := func() string { n++; return fmt.Sprintf("M%03d", n) }
	for i := 0; i < tierN(c, 14, 80); i++ {
		a, b := types[r.Intn(len(types)-1)], types[r.Intn(len(types))]
		if seen["fs"+a+b] {
			continue
		}
		seen["fs"+a+b] = true
		items = append(items, pgen.FmapSliceItem(id(), a, b, false))
	}
	for i, b := range types {
		if c.Quick && i%2 != int(c.Seed%2) && b != "rune" && b != "string" {
			continue
		}
		if seen["fsrune"+b] {
			continue
		}
		seen["fsrune"+b] = true
		items = append(items, pgen.FmapSliceItem(id(), "rune", b, true))
	}
	for i, a := range types {
		if c.Quick && i%2 == int(c.Seed%2) {
			continue
		}
		items = append(items, pgen.JoinSliceItem(id(), a, false))
	}
	items = append(items, pgen.JoinSliceItem(id(), "", true))
	return items
}

func checkC18(c *Ctx) {
	c.Anchors = []string{"plugin/mem"}
	c.Run.Rule = "items: deriveMem over signatures with 0-3 parameters x 0-3 results over ==-comparable (int, string, bool, float64, named basics, struct, array) and non-comparable (slice, pointer, map, struct with pointers, slices of slices / structs) types, all naming modes; per item a call sequence of 4N steps over 7 argument vectors, so arguments repeat as fresh Equal-but-not-identical copies, including vectors that collide under the derived 31-fold hash ({0,31}/{1,0}, \"Aa\"/\"BB\") and +0/-0. Oracle: every result equals a direct call; at every prefix of the sequence the instrumented function's call count is at most the number of distinct (canonically encoded = Equal) argument tuples seen so far. distinct_nontrivial = distinct (signature shape, check class)"
	c.Run.Assume = []string{"the instrumented function is deterministic"}
	c.Run.Floor = 20
	outs := c.runFuncBatches(c18Items(c), 20, true, tierN(c, 8, 16))
	c.judgeFuncOutcomes(outs, true)
}

func c18Items(c *Ctx) []pgen.FItem {
	r := rand.New(rand.NewSource(c.Seed*419 + 9))
	var items []pgen.FItem
	seen := map[string]bool{}
	n := 0
	add := func(s pgen.FSig) {
		if seen[sigKey("mem", s.P, s.R)] {
			return
		}
		seen[sigKey("mem", s.P, s.R)] = true
		n++
		items = append(items, pgen.MemItem(fmt.Sprintf("Q%03d", n), s))
	}
	all := append(append([]string{}, pgen.ComparableFuncTypes...), pgen.NonComparableFuncTypes...)
	modes := []string{"named", "blank", "unnamed", "reserved"}
	for np := 0; np <= 3; np++ {
		for nr := 0; nr <= 3; nr++ {
			for v := 0; v < tierN(c, 3, 10); v++ {
				s := pgen.FSig{Mode: modes[(np+nr+v)%4]}
				for i := 0; i < np; i++ {
					switch v % 3 {
					case 0:
						s.P = append(s.P, pgen.ComparableFuncTypes[r.Intn(len(pgen.ComparableFuncTypes))])
					case 1:
						s.P = append(s.P, pgen.NonComparableFuncTypes[r.Intn(len(pgen.NonComparableFuncTypes))])
					default:
						s.P = append(s.P, all[r.Intn(len(all))])
					}
				}
				s.R = pick(r, valueTypes, nr)
				add(s)
			}
		}
	}
	// the colliding-argument shapes explicitly
	add(pgen.FSig{P: []string{"[]int"}, R: []string{"int"}, Mode: "named"})
	add(pgen.FSig{P: []string{"string"}, R: []string{"int"}, Mode: "named"})
	add(pgen.FSig{P: []string{"[]int", "string"}, R: []string{"int", "string"}, Mode: "named"})
	add(pgen.FSig{P: []string{"float64"}, R: []string{"int"}, Mode: "named"})
	add(pgen.FSig{P: []string{"[]string"}, R: []string{"string"}, Mode: "named"})
	add(pgen.FSig{P: []string{"*SV"}, R: []string{"int"}, Mode: "named"})
	add(pgen.FSig{P: []string{"*SV", "int"}, R: []string{"int"}, Mode: "named"})
	// all-string parameter lists (a joined key would confuse ("a\x00","b") with ("a","\x00b"))
	add(pgen.FSig{P: []string{"string", "string"}, R: []string{"string"}, Mode: "named"})
	add(pgen.FSig{P: []string{"string", "string", "string"}, R: nil, Mode: "named"})
	add(pgen.FSig{P: []string{"NStr", "string"}, R: []string{"int", "string"}, Mode: "blank"})
	add(pgen.FSig{P: []string{"float64", "float64"}, R: []string{"int"}, Mode: "named"})
	add(pgen.FSig{P: []string{"float64"}, R: nil, Mode: "named"})
	// signed zeros below a non-comparable argument (hashed, then compared with the derived Equal): real and imaginary
	// parts of complex numbers, floats in lists (round 6: the complex hash lost its "+ 0" on the imaginary part)
	add(pgen.FSig{P: []string{"[]complex128"}, R: []string{"int"}, Mode: "named"})
	add(pgen.FSig{P: []string{"[]float64"}, R: []string{"string"}, Mode: "named"})
	add(pgen.FSig{P: []string{"complex128"}, R: []string{"bool"}, Mode: "named"})
	add(pgen.FSig{P: []string{"[]complex64", "int"}, R: []string{"int", "int"}, Mode: "named"})
	// functions with a trailing error result that fail for some arguments
	add(pgen.FSig{P: []string{"int"}, R: []string{"string", "error"}, Mode: "named"})
	add(pgen.FSig{P: []string{"string"}, R: []string{"error"}, Mode: "named"})
	add(pgen.FSig{P: []string{"[]int", "string"}, R: []string{"SV", "NInt", "error"}, Mode: "unnamed"})
	add(pgen.FSig{P: []string{"*SV"}, R: []string{"[]string", "error"}, Mode: "blank"})
	add(pgen.FSig{P: nil, R: []string{"int", "error"}, Mode: "named"})
	add(pgen.FSig{P: []string{"NStr", "float64", "bool"}, R: []string{"error"}, Mode: "reserved"})
	// one small-integer parameter, one result (a table indexed by the argument would be tempting)
	add(pgen.FSig{P: []string{"int8"}, R: []string{"int"}, Mode: "named"})
	add(pgen.FSig{P: []string{"NI8"}, R: []string{"string"}, Mode: "named"})
	add(pgen.FSig{P: []string{"uint8"}, R: []string{"int"}, Mode: "named"})
	add(pgen.FSig{P: []string{"int16"}, R: []string{"bool"}, Mode: "named"})
	add(pgen.FSig{P: []string{"bool"}, R: []string{"string"}, Mode: "named"})
	// functions whose results are nil / zero (a sentinel that must not be mistaken for "not computed yet");
	// result types outside the alphabet above, so that no signature is asked for twice in one package
	for _, rt := range []string{"*SP", "[]SV", "map[int]string", "error", "[]*int", "*NInt", "uint8"} {
		add(pgen.FSig{P: nil, R: []string{rt}, Mode: "named", ZeroResults: true})
	}
	add(pgen.FSig{P: []string{"int"}, R: []string{"*SP"}, Mode: "named", ZeroResults: true})
	add(pgen.FSig{P: []string{"[]string"}, R: []string{"[]SV", "*int"}, Mode: "named", ZeroResults: true})
	add(pgen.FSig{P: nil, R: []string{"*NStr", "[]SV"}, Mode: "named", ZeroResults: true})
	// arguments overwritten in place between two calls (signatures with results (int, NCx): no other item has them)
	for i, t := range []string{"[]int", "[]string", "*SV", "map[string]int"} {
		items = append(items, pgen.MemMutateItem(fmt.Sprintf("QM%d", i), t))
	}
	// functions that recurse through their own memoized form
	items = append(items, pgen.MemReentrantItem("QR1", "int"), pgen.MemReentrantItem("QR2", "string"))
	return items
}
