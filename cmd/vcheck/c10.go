package main

import (
	"bytes"
	"fmt"
	"go/format"
	"go/parser"
	"go/scanner"
	"go/token"
	"math/rand"
	"os"
	"path/filepath"
	"sort"
	"strings"

	"verif/internal/grun"
	"verif/internal/pgen"
	"verif/internal/report"
)

func init() { register("C10", "exploration", checkC10) }

type tok struct {
	T   token.Token
	Lit string
	Off int
}

func scanAll(src []byte) ([]tok, error) {
	fset := token.NewFileSet()
	f := fset.AddFile("x.go", fset.Base(), len(src))
	var s scanner.Scanner
	var errs []string
	s.Init(f, src, func(pos token.Position, msg string) { errs = append(errs, msg) }, scanner.ScanComments)
	var out []tok
	for {
		p, t, lit := s.Scan()
		if t == token.EOF {
			break
		}
		if t == token.SEMICOLON && lit == "\n" {
			continue // automatically inserted semicolons depend on layout only
		}
		if t == token.COMMENT {
			lit = strings.TrimRight(lit, " \t\r\n")
		}
		out = append(out, tok{t, lit, f.Offset(p)})
	}
	if len(errs) > 0 {
		return out, fmt.Errorf("%s", strings.Join(errs, "; "))
	}
	return out, nil
}

// renameOnlyDiff checks that two token streams are identical except for identifiers that are
// derive-prefixed call names on both sides. It returns the substitutions (offset in a -> new name).
func renameOnlyDiff(a, b []tok, prefix string) (map[int]string, string) {
	subst := map[int]string{}
	if len(a) != len(b) {
		n := len(a)
		if len(b) < n {
			n = len(b)
		}
		for i := 0; i < n; i++ {
			if a[i].T != b[i].T || (a[i].Lit != b[i].Lit && !(a[i].T == token.IDENT && strings.HasPrefix(a[i].Lit, prefix) && strings.HasPrefix(b[i].Lit, prefix))) {
				return nil, fmt.Sprintf("token streams differ in length (%d vs %d); first difference at token %d: %s %q vs %s %q", len(a), len(b), i, a[i].T, a[i].Lit, b[i].T, b[i].Lit)
			}
		}
		return nil, fmt.Sprintf("token streams differ in length (%d vs %d): one is a proper prefix of the other", len(a), len(b))
	}
	for i := range a {
		if a[i].T != b[i].T {
			return nil, fmt.Sprintf("token %d: %s %q vs %s %q", i, a[i].T, a[i].Lit, b[i].T, b[i].Lit)
		}
		if a[i].Lit != b[i].Lit {
			// the next token that is not a comment must open the argument list
			j := i + 1
			for j < len(a) && a[j].T == token.COMMENT {
				j++
			}
			isCall := j < len(a) && a[j].T == token.LPAREN
			if a[i].T == token.IDENT && isCall && strings.HasPrefix(a[i].Lit, prefix) && strings.HasPrefix(b[i].Lit, prefix) {
				subst[a[i].Off] = b[i].Lit
				continue
			}
			return nil, fmt.Sprintf("token %d changed: %s %q -> %q", i, a[i].T, a[i].Lit, b[i].Lit)
		}
	}
	return subst, ""
}

// substitute applies identifier substitutions by byte offset.
func substitute(src []byte, toks []tok, subst map[int]string) []byte {
	var offs []int
	for o := range subst {
		offs = append(offs, o)
	}
	sort.Ints(offs)
	lits := map[int]string{}
	for _, t := range toks {
		lits[t.Off] = t.Lit
	}
	var out bytes.Buffer
	prev := 0
	for _, o := range offs {
		out.Write(src[prev:o])
		out.WriteString(subst[o])
		prev = o + len(lits[o])
	}
	out.Write(src[prev:])
	return out.Bytes()
}

type c10Case struct {
	Name  string
	Class string
	Desc  string
	Files map[string]string
	Flags []string
	Args  []string // package arguments (default ./p)
	Modes map[string]os.FileMode
}

func checkC10(c *Ctx) {
	c.Anchors = []string{"derive"}
	c.Run.Rule = "cases = module trees (package p plus bystander packages, non-Go files, read-only files, non-gofmt files, //line directives) run (a) without -autoname/-dedup over successful, generator-error and load-error outcomes: the recursive snapshot (names, modes, sha256) before vs after may differ only in p/derived.gen.go; (b) with -autoname / -dedup / both over renamings whose new name is shorter than, as long as, or longer than the old one, several renamed calls per file, renames decided only in a second generation pass, trailing comments, build tags: files without a renamed call must be byte-identical, a rewritten file must parse, be gofmt-stable, have a token stream (go/scanner, comments included) identical to the original except at derive call identifiers, and be byte-identical to gofmt(original with those identifiers substituted). distinct_nontrivial = distinct (flag set, scenario, layout, name-length relation, outcome)"
	c.Run.Assume = []string{"gofmt = go/format.Source of the toolchain the check is built with"}
	c.Run.Floor = 20
	cases := c10Cases(c)
	type res struct {
		g             grun.Result
		before, after map[string]grun.FileState
		dir           string
		orig          map[string]string
	}
	outs := make([]res, len(cases))
	parallel(len(cases), 12, func(i int) {
		cs := cases[i]
		dir := c.Env.Dir(cs.Name)
		files := map[string]string{"go.mod": pgen.GoMod}
		for k, v := range cs.Files {
			files[k] = v
		}
		grun.WriteTree(dir, files)
		for p, m := range cs.Modes {
			os.Chmod(filepath.Join(dir, p), m)
		}
		args := cs.Args
		if len(args) == 0 {
			args = []string{"./p"}
		}
		before := grun.Snapshot(dir)
		g := c.Goderive(dir, append(append([]string{}, cs.Flags...), args...))
		after := grun.Snapshot(dir)
		outs[i] = res{g, before, after, dir, files}
	})
	ns := 0
	for i, cs := range cases {
		o := outs[i]
		c.Run.Eval(1)
		outcome := "success"
		if o.g.Exit != 0 {
			outcome = "failure"
		}
		cr, del, ch := grun.Diff(o.before, o.after)
		flagged := len(cs.Flags) > 0
		viol := func(sym, detail string) {
			c.Run.Violate(report.Violation{
				Key: cs.Class + "|" + sym, Summary: cs.Desc + ": " + sym, Detail: detail,
				Files:  mapWithPrefix(o.orig, "tree/"),
				Replay: replayScript(strings.Join(append(append([]string{}, cs.Flags...), "./p"), " "), "for f in p/*.go; do [ \"$f\" = p/derived.gen.go ] && continue; gofmt -e \"$f\" >/dev/null || exit 1; done\ncd \"$HERE/tree\" && for f in $(find . -type f ! -name derived.gen.go); do cmp -s \"$f\" \"$W/m/$f\" || echo \"changed: $f\"; done\nexit 0"),
			})
		}
		bad := false
		for _, p := range append(cr, del...) {
			if p != "p/derived.gen.go" && !strings.HasSuffix(p, "/derived.gen.go") {
				viol("file-created-or-deleted", "path "+p+" was created or deleted\nstderr: "+trunc(o.g.Stderr, 500))
				bad = true
			} else if p != "p/derived.gen.go" && !argCovers(cs.Args, p) {
				viol("derived-file-outside-processed-package", "path "+p+"\nstderr: "+trunc(o.g.Stderr, 500))
				bad = true
			}
		}
		nrew := 0
		layoutMismatch := 0
		for _, p := range ch {
			if strings.HasSuffix(p, "/") || p == "p/derived.gen.go" {
				continue
			}
			if o.before[p].Sum == o.after[p].Sum {
				viol("mode-changed", fmt.Sprintf("%s mode %v -> %v", p, o.before[p].Mode, o.after[p].Mode))
				bad = true
				continue
			}
			if !flagged {
				viol("user-file-modified-without-flags", "path "+p+"\nstderr: "+trunc(o.g.Stderr, 500))
				bad = true
				continue
			}
			if !strings.HasSuffix(p, ".go") {
				viol("non-go-file-modified", "path "+p)
				bad = true
				continue
			}
			orig := []byte(o.orig[p])
			now, _ := os.ReadFile(filepath.Join(o.dir, p))
			nrew++
			if _, err := parser.ParseFile(token.NewFileSet(), p, now, parser.ParseComments); err != nil {
				viol("rewritten-file-does-not-parse", fmt.Sprintf("%s: %v\n--- rewritten tail ---\n%s", p, err, tailBytes(now, 300)))
				bad = true
				continue
			}
			// gofmt itself sorts the specs of an import block and normalises number literals (0XFF, 1E3):
			// the reference token stream is that of gofmt(original), which differs from the original's in
			// nothing else
			if f0, err := format.Source(orig); err == nil {
				orig = f0
			}
			ta, _ := scanAll(orig)
			tb, _ := scanAll(now)
			subst, why := renameOnlyDiff(ta, tb, "derive")
			if why != "" {
				viol("rewritten-file-token-stream-differs", p+": "+why)
				bad = true
				continue
			}
			if len(subst) == 0 {
				viol("file-without-renamed-call-rewritten", p+" was rewritten although none of its call identifiers changed")
				bad = true
				continue
			}
			if f2, err := format.Source(now); err != nil || !bytes.Equal(f2, now) {
				viol("rewritten-file-not-gofmt-stable", p)
				bad = true
				continue
			}
			if o.before[p].Mode != o.after[p].Mode {
				viol("mode-changed", fmt.Sprintf("%s mode %v -> %v", p, o.before[p].Mode, o.after[p].Mode))
				bad = true
			}
			exp, err := format.Source(substitute(orig, ta, subst))
			if err != nil || !bytes.Equal(exp, now) {
				layoutMismatch++
				viol("rewritten-file-is-not-gofmt-of-substituted-original", p+": same tokens, but the bytes differ from gofmt(original with the renamed identifiers substituted)\n"+firstDiff(string(exp), string(now)))
				bad = true
			}
		}
		if flagged && o.g.Exit == 0 && nrew == 0 && strings.Contains(cs.Class, "rename") {
			// the scenario was built to need a rename; none happened and the run succeeded: leave that to C11
			c.Run.Count("rename_scenarios_without_rewrite", 1)
		}
		c.Run.Count("rewritten_files", int64(nrew))
		c.Run.Count("layout_mismatch", int64(layoutMismatch))
		if !bad {
			c.Run.Distinct(fmt.Sprintf("%s|%s|rewritten=%d", cs.Class, outcome, nrew))
			if ns < 6 && (nrew > 0 || ns < 2) {
				ns++
				c.Run.Sample(map[string]any{"case": cs.Desc, "flags": cs.Flags, "exit": o.g.Exit, "rewritten_files": nrew, "stderr": trunc(strings.TrimSpace(o.g.Stderr), 160)})
			}
		}
	}
}

func argCovers(args []string, p string) bool {
	d := filepath.Dir(p)
	for _, a := range args {
		if a == "./..." || strings.TrimPrefix(a, "./") == d || strings.TrimPrefix(a, "scratch/") == d {
			return true
		}
	}
	return false
}

func tailBytes(b []byte, n int) string {
	if len(b) > n {
		b = b[len(b)-n:]
	}
	return string(b)
}

func mapWithPrefix(m map[string]string, pre string) map[string]string {
	out := map[string]string{}
	for k, v := range m {
		out[pre+k] = v
	}
	return out
}

// uglify makes a gofmt-formatted source non-gofmt (layout only, tokens unchanged).
func uglify(src string, r *rand.Rand) string {
	var sb strings.Builder
	for _, ln := range strings.Split(src, "\n") {
		t := strings.TrimLeft(ln, "\t")
		ind := len(ln) - len(t)
		if strings.HasPrefix(t, "//") || t == "" {
			sb.WriteString(ln + "\n")
			continue
		}
		sb.WriteString(strings.Repeat("  ", ind))
		t = strings.ReplaceAll(t, ", ", ",  ")
		t = strings.ReplaceAll(t, " {", "  {")
		if r.Intn(2) == 0 {
			t = strings.ReplaceAll(t, " = ", "=")
		}
		sb.WriteString(t + "   \n")
	}
	return sb.String()
}

// c10FileSep separates the text of p.go from the text of a second file with renamed calls.
const c10FileSep = "\n//==== p/q_more.go ====\n"

func c10Cases(c *Ctx) []c10Case {
	var out []c10Case
	n := 0
	r := rand.New(rand.NewSource(c.Seed*131 + 7))
	add := func(class, desc string, files map[string]string, flags []string, args []string, modes map[string]os.FileMode) {
		n++
		out = append(out, c10Case{Name: fmt.Sprintf("c10-%04d", n), Class: class, Desc: desc, Files: files, Flags: flags, Args: args, Modes: modes})
	}
	types := "type A struct {\n\tX int\n\tL []string\n}\n\ntype B struct {\n\tY string\n\tM map[string]int\n}\n\ntype C struct {\n\tZ *A\n}\n"
	bystander := "package q\n\n// a bystander package: not gofmt-formatted, never addressed\nfunc   Q( a,b int )int{return a+b}\n"
	notes := "notes that are not Go\n"
	other := "package p\n\n// file without any derive call, deliberately not gofmt-formatted\nfunc   helper( a int,b int )int{\n        return a+b }\n"

	// ---- (a) flag-less runs over outcomes -------------------------------------------------------
	okSrc := "package p\n\n" + types + "\nfunc eq(a, b *A) bool { return deriveEqual(a, b) }\n\nfunc h(b *B) uint64 { return deriveHash(b) }\n\nfunc cl(x *C) *C { return deriveClone(x) }\n\nfunc ks(m map[string]int) []string { return deriveSort(deriveKeys(m)) }\n"
	genErr := "package p\n\n" + types + "\ntype D struct {\n\tCh chan int\n}\n\nfunc cmp(a, b *D) int { return deriveCompare(a, b) }\n\nfunc eq(a, b *A) bool { return deriveEqual(a, b) }\n"
	conflict := "package p\n\n" + types + "\nfunc e1(a, b *A) bool { return deriveEqual(a, b) }\n\nfunc e2(a, b *B) bool { return deriveEqual(a, b) }\n"
	dupl := "package p\n\n" + types + "\nfunc e1(a, b *A) bool { return deriveEqualOne(a, b) }\n\nfunc e2(a, b *A) bool { return deriveEqualTwo(a, b) }\n"
	loadErr := "package p\n\nfunc broken( {\n"
	cannot := "package p\n\nfunc k() bool { return deriveEqual(nothing(), nothing()) }\n"
	lineDir := "//line gram.y:3\npackage p\n\n" + types + "\n//line gram.y:40\nfunc eq(a, b *A) bool { return deriveEqual(a, b) }\n"
	for _, v := range []struct{ class, desc, src string }{
		{"noflags:success", "successful run", okSrc}, {"noflags:generator-error", "generator error (chan field under compare)", genErr},
		{"noflags:conflict-error", "name conflict without flags", conflict}, {"noflags:duplicate-error", "duplicate without flags", dupl},
		{"noflags:load-error", "syntax error in user file", loadErr}, {"noflags:cannot-generate", "call that never becomes typeable", cannot},
		{"noflags:line-directive", "user file with //line directives pointing at another file", lineDir},
	} {
		for variant := 0; variant < 3; variant++ {
			files := map[string]string{"p/p.go": v.src, "p/other.go": other, "q/q.go": bystander, "p/NOTES.txt": notes, "p/gram.y": "%{ yacc source %}\n"}
			modes := map[string]os.FileMode{}
			desc := v.desc
			switch variant {
			case 1:
				files["p/p.go"] = uglify(v.src, r)
				desc += " (non-gofmt layout)"
			case 2:
				modes["p/other.go"] = 0o444
				modes["p/NOTES.txt"] = 0o400
				files["p/derived.gen.go"] = "// Code generated by goderive DO NOT EDIT.\n\npackage p\n"
				desc += " (read-only bystanders, stale derived.gen.go present)"
			}
			add(v.class, desc, files, nil, nil, modes)
		}
		add(v.class+":dotdotdot", v.desc+" addressed as ./...", map[string]string{"p/p.go": v.src, "p/other.go": other, "q/q.go": bystander, "p/NOTES.txt": notes}, nil, []string{"./..."}, nil)
	}

	// ---- (b) renaming runs ------------------------------------------------------------------------
	type scen struct {
		name  string
		flags []string
		// body builds the functions given two call names
		body func(n1, n2 string) string
	}
	scens := []scen{
		{"autoname-conflict", []string{"-autoname"}, func(n1, n2 string) string {
			return "func e1(a, b *A) bool { return " + n1 + "(a, b) } // first user\n\n// e2 collides with e1 on the name\nfunc e2(a, b *B) bool {\n\t/* before */ return " + n1 + "(a, b) /* after */\n}\n"
		}},
		{"dedup-duplicate", []string{"-dedup"}, func(n1, n2 string) string {
			return "func e1(a, b *A) bool { return " + n1 + "(a, b) }\n\nfunc e2(a, b *A) bool { return " + n2 + "(a, b) } // duplicate of e1\n"
		}},
		{"both-mixed", []string{"-autoname", "-dedup"}, func(n1, n2 string) string {
			return "func e1(a, b *A) bool { return " + n1 + "(a, b) }\n\nfunc e2(a, b *B) bool { return " + n1 + "(a, b) }\n\nfunc e3(a, b *B) bool { return " + n2 + "(a, b) }\n\nfunc e4(a, b *C) bool { return " + n2 + "(a, b) && " + n1 + "(a.Z, b.Z) }\n"
		}},
		{"autoname-second-pass", []string{"-autoname"}, func(n1, n2 string) string {
			return "func e1(a, b *A) bool { return " + n1 + "(a, b) }\n\n// the argument type of this call is only known after a first generation pass\nfunc e2(m map[string]int, want []string) bool {\n\treturn " + n1 + "(deriveSort(deriveKeys(m)), want) // nested\n}\n"
		}},
		{"dedup-two-files", []string{"-dedup"}, func(n1, n2 string) string {
			return "func e1(a, b *A) bool { return " + n1 + "(a, b) }\n\nfunc e2(a, b *A) bool { return " + n2 + "(a, b) } // renamed in this file\n" +
				c10FileSep + "package p\n\n// a second file of the package with its own renamed call\nfunc e9(a, b *A) bool { return " + n2 + "(b, a) } // and renamed in this one\n\nvar keep = 1 // stays\n"
		}},
		{"autoname-two-files", []string{"-autoname"}, func(n1, n2 string) string {
			return "func e1(a, b *A) bool { return " + n1 + "(a, b) }\n\nfunc e2(a, b *B) bool { return " + n1 + "(a, b) }\n" +
				c10FileSep + "package p\n\n// a second file of the package with a third user of the same name\nfunc e9(a, b *C) bool { return " + n1 + "(a, b) }\n"
		}},
		{"dedup-comments-at-call", []string{"-dedup"}, func(n1, n2 string) string {
			return "func e1(a, b *A) bool { return " + n1 + "(a, b) }\n\nfunc e2(a, b *A) bool { return " + n2 + " /* between name and paren */ (a, b) }\n\nfunc e3(a, b *A) bool {\n\treturn " + n2 + "( // right after the parenthesis\n\t\ta, b)\n}\n\nfunc e4(a, b *A) bool {\n\treturn /* before the name */ " + n2 + "(a /* first */, b /* second */) // trailing\n}\n"
		}},
		{"dedup-many-per-file", []string{"-dedup"}, func(n1, n2 string) string {
			return "func e1(a, b *A) bool { return " + n1 + "(a, b) }\n\nfunc e2(a, b *A) bool { return " + n2 + "(a, b) && " + n2 + "(b, a) }\n\nvar v = " + n2 + "(&A{}, &A{}) // package-level\n\nfunc e3() func(a, b *A) bool { return func(a, b *A) bool { return " + n2 + "(a, b) } }\n"
		}},
	}
	names := [][2]string{ // (n1, n2): relation of the replacement's length to the replaced name varies
		{"deriveEqual", "deriveEqualLongerName"}, {"deriveEqualLongerName", "deriveEqual"}, {"deriveEqualQ", "deriveEqualR"},
		{"deriveEqualAB", "deriveEqual_"}, {"deriveEqualVeryLongNameIndeedWithManyCharacters", "deriveEqualX"},
	}
	for _, sc := range scens {
		for ni, nm := range names {
			for layout := 0; layout < 4; layout++ {
				if c.Quick && (ni+layout+len(sc.name))%2 != int(c.Seed%2) && layout > 0 {
					continue
				}
				hdr := "package p\n\n"
				desc := fmt.Sprintf("%s names=(%s,%s)", sc.name, nm[0], nm[1])
				switch layout {
				case 1:
					hdr = "//go:build !never\n\n// Package p has a build tag and a doc comment.\npackage p\n\n"
					desc += " build-tag+doc"
				}
				src := hdr + types + "\n" + sc.body(nm[0], nm[1]) + "\n// trailing comment at the very end of the file\n"
				if layout == 2 {
					src = uglify(src, r)
					desc += " non-gofmt"
				}
				if layout == 3 {
					// correct layout, but things only gofmt proper (not go/printer alone) touches: an unsorted
					// import block and number literals with upper-case prefixes / exponents
					src = hdr + "import (\n\t\"strings\"\n\t\"fmt\"\n\t\"bytes\"\n)\n\nvar _ = fmt.Sprint(strings.ToUpper(\"x\"), bytes.MinRead, 0XFF, 1E3, 0B11, 0O17, 0X1P-2)\n\n" + strings.TrimPrefix(src, hdr)
					desc += " unsorted-imports+literals"
				}
				var more string
				if i := strings.Index(src, c10FileSep); i >= 0 {
					src, more = src[:i], src[i+len(c10FileSep):]
					if layout == 2 {
						more = uglify(more, r)
					}
				}
				files := map[string]string{"p/p.go": src, "p/other.go": other, "q/q.go": bystander, "p/NOTES.txt": notes}
				if more != "" {
					files["p/q_more.go"] = more
				}
				// a second user file with its own (non-renamed) derive call
				files["p/second.go"] = "package p\n\n// second.go has a derive call that keeps its name\nfunc hashB(b *B) uint64 { return deriveHash(b) }\n"
				// files that sort AFTER the file with the renamed call: valid Go that is not gofmt-formatted,
				// one without any derive call and one with a derive call that keeps its name
				files["p/zz_later.go"] = "package p\n\n// loaded after p.go; not gofmt-formatted; no derive call\nfunc   later( a,b int )int{\n        return a-b }\n"
				files["p/zz_later2.go"] = "package p\n\n// loaded after p.go; not gofmt-formatted; keeps its derive call name\nfunc   cloneC( c *C )*C{ return deriveClone( c ) }\n"
				add("rename:"+sc.name+fmt.Sprintf(":names%d:layout%d", ni, layout), desc, files, sc.flags, nil, nil)
			}
		}
	}
	// a rename in an early file followed by a call that is rejected at registration in a later file: the
	// run fails after the rename was decided; nothing may be created or left behind
	for _, sc := range scens[:3] {
		src := "package p\n\n" + types + "\n" + sc.body("deriveEqual", "deriveEqualLongerName")
		bad := "package p\n\n// rejected at registration: the two arguments have different types\nfunc cmpAB(a *A, b *B) int { return deriveCompare(a, b) }\n"
		add("rename:"+sc.name+":then-add-error", sc.name+" followed by an Add error in a later file", map[string]string{"p/a.go": src, "p/c_bad.go": bad, "p/other.go": other, "p/zz_later.go": "package p\n\nfunc   later( a,b int )int{ return a-b }\n"}, sc.flags, nil, nil)
		gen := "package p\n\ntype D struct{ Ch chan int }\n\n// rejected during generation\nfunc cmpD(a, b *D) int { return deriveCompare(a, b) }\n"
		add("rename:"+sc.name+":then-generator-error", sc.name+" followed by a generator error in a later file", map[string]string{"p/a.go": src, "p/c_bad.go": gen, "p/other.go": other}, sc.flags, nil, nil)
	}
	// renamed call in a file with //line directives (goyacc style)
	for _, sc := range scens[:2] {
		src := "//line gram.y:3\npackage p\n\n" + types + "\n//line gram.y:40\n" + sc.body("deriveEqualLongerName", "deriveEqual")
		add("rename:"+sc.name+":line-directive", sc.name+" in a file with //line directives", map[string]string{"p/y.go": src, "p/gram.y": "%{ yacc source %}\n", "p/other.go": other}, sc.flags, nil, nil)
	}
	return out
}
