package main

import (
	"fmt"

	"github.com/anishathalye/porcupine"
)

func main() { fmt.Println(porcupine.Ok) }
