// vcheck is the one CLI every MANIFEST command calls:
//
//	vcheck <Cxx> [--tier quick|thorough] [--seed N] [--replay path]
//
// It always rebuilds goderive from the repository's current working tree (VERIF_REPO, default
// /repo) with -tags verif -cover, generates the seed-determined case list of the property, drives
// the executions, decides with the property's oracle and writes evidence/<Cxx>.json.
// Exit status: 0 held on everything explored (known findings are listed), 1 violation,
// 2 the check itself is broken / inconclusive.
package main

import (
	"flag"
	"fmt"
	"os"
	"os/exec"
	"sort"
	"strconv"
)

type checkFn func(c *Ctx)

type checkDef struct {
	fn    checkFn
	level string
}

var checks = map[string]checkDef{}

func register(id, level string, fn checkFn) { checks[id] = checkDef{fn, level} }

func main() {
	if len(os.Args) < 2 {
		usage()
	}
	prop := os.Args[1]
	fs := flag.NewFlagSet("vcheck", flag.ExitOnError)
	tier := fs.String("tier", envOr("VERIF_TIER", "quick"), "quick | thorough")
	seedDefault, _ := strconv.ParseInt(envOr("VERIF_SEED", "1"), 10, 64)
	seed := fs.Int64("seed", seedDefault, "seed for every random choice")
	replay := fs.String("replay", "", "replay directory of a reported violation")
	fs.Parse(os.Args[2:])
	if prop == "list" {
		ids := make([]string, 0, len(checks))
		for id := range checks {
			ids = append(ids, id)
		}
		sort.Strings(ids)
		for _, id := range ids {
			fmt.Println(id, checks[id].level)
		}
		return
	}
	def, ok := checks[prop]
	if !ok {
		fmt.Fprintf(os.Stderr, "vcheck: unknown property %q\n", prop)
		usage()
	}
	if *replay != "" {
		cmd := exec.Command("sh", "replay.sh")
		cmd.Dir = *replay
		cmd.Stdout, cmd.Stderr = os.Stdout, os.Stderr
		if err := cmd.Run(); err != nil {
			fmt.Printf("VIOLATION property=%s replay=%s\n", prop, *replay)
			os.Exit(1)
		}
		os.Exit(0)
	}
	if *tier != "quick" && *tier != "thorough" {
		fmt.Fprintln(os.Stderr, "vcheck: --tier must be quick or thorough")
		os.Exit(2)
	}
	c, err := newCtx(prop, *tier, *seed, def.level)
	if err != nil {
		fmt.Printf("BROKEN: %v\n", err)
		os.Exit(2)
	}
	code := 2
	func() {
		defer c.Env.Cleanup()
		defer func() {
			if e := recover(); e != nil {
				fmt.Printf("BROKEN: check panicked: %v\n", e)
				panic(e)
			}
		}()
		def.fn(c)
		c.finishCoverage()
		code = c.Run.Finish()
	}()
	os.Exit(code)
}

func envOr(k, d string) string {
	if v := os.Getenv(k); v != "" {
		return v
	}
	return d
}

func usage() {
	fmt.Fprintln(os.Stderr, "usage: vcheck <C01..C20|list> [--tier quick|thorough] [--seed N] [--replay path]")
	os.Exit(2)
}
