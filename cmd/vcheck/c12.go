package main

import (
	"bytes"
	"fmt"
	"go/ast"
	"go/parser"
	"go/scanner"
	"go/token"
	"math/rand"
	"os"
	"path/filepath"
	"sort"
	"strings"

	"verif/internal/grun"
	"verif/internal/pgen"
	"verif/internal/report"
)

func init() { register("C12", "exploration", checkC12) }

// pluginPrefixes: plugin name -> default prefix (from the plugins' NewPlugin constructors).
var pluginPrefixes = map[string]string{
	"all": "deriveAll", "any": "deriveAny", "apply": "deriveApply", "clone": "deriveClone", "compare": "deriveCompare", "compose": "deriveCompose",
	"contains": "deriveContains", "curry": "deriveCurry", "deepcopy": "deriveDeepCopy", "do": "deriveDo", "dup": "deriveDup", "equal": "deriveEqual",
	"filter": "deriveFilter", "flip": "deriveFlip", "fmap": "deriveFmap", "gostring": "deriveGoString", "hash": "deriveHash", "intersect": "deriveIntersect",
	"join": "deriveJoin", "keys": "deriveKeys", "max": "deriveMax", "mem": "deriveMem", "min": "deriveMin", "pipeline": "derivePipeline", "set": "deriveSet",
	"sort": "deriveSort", "takewhile": "deriveTakeWhile", "toerror": "deriveToError", "traverse": "deriveTraverse", "tuple": "deriveTuple",
	"uncurry": "deriveUncurry", "union": "deriveUnion", "unique": "deriveUnique",
}

// ownerOf returns the plugin whose prefix is the longest prefix of name under the given prefix table.
func ownerOf(name string, prefixes map[string]string) string {
	best, bl := "", -1
	for pl, px := range prefixes {
		if strings.HasPrefix(name, px) && len(px) > bl {
			best, bl = pl, len(px)
		}
	}
	return best
}

type prefixMap struct {
	Name   string
	Global string            // -prefix value ("" = not given)
	Per    map[string]string // -pluginprefix
}

func (pm prefixMap) flags() []string {
	var f []string
	if pm.Global != "" {
		f = append(f, "-prefix="+pm.Global)
	}
	if len(pm.Per) > 0 {
		var ps []string
		for _, k := range sortedKeys(pm.Per) {
			ps = append(ps, k+"="+pm.Per[k])
		}
		f = append(f, "-pluginprefix="+strings.Join(ps, ","))
	}
	return f
}

// effective computes the prefix table goderive is specified to use: default with "derive"
// replaced by the global prefix, then per-plugin overrides verbatim.
func (pm prefixMap) effective() map[string]string {
	out := map[string]string{}
	for pl, px := range pluginPrefixes {
		if pm.Global != "" {
			px = strings.Replace(px, "derive", pm.Global, 1)
		}
		if o, ok := pm.Per[pl]; ok {
			px = o
		}
		out[pl] = px
	}
	return out
}

// renameSource renames every derive-call identifier of a user source from the default prefixes to
// the effective ones (identifier tokens only; comments and strings untouched).
func renameSource(src string, eff map[string]string) string {
	fset := token.NewFileSet()
	b := []byte(src)
	f := fset.AddFile("x.go", fset.Base(), len(b))
	var s scanner.Scanner
	s.Init(f, b, nil, scanner.ScanComments)
	var out bytes.Buffer
	prev := 0
	for {
		p, t, lit := s.Scan()
		if t == token.EOF {
			break
		}
		if t == token.IDENT && strings.HasPrefix(lit, "derive") {
			if pl := ownerOf(lit, pluginPrefixes); pl != "" {
				off := f.Offset(p)
				out.Write(b[prev:off])
				out.WriteString(eff[pl] + lit[len(pluginPrefixes[pl]):])
				prev = off + len(lit)
			}
		}
	}
	out.Write(b[prev:])
	return out.String()
}

// isoCompare checks that two generated files are the same set of function declarations up to a
// renaming of generated function names. The renaming is discovered by simultaneous traversal
// starting from the user's call names (seed: default name -> custom name).
func isoCompare(a, b []byte, seed map[string]string) string {
	fa, fb := token.NewFileSet(), token.NewFileSet()
	pa, err := parser.ParseFile(fa, "a.go", a, parser.ParseComments)
	if err != nil {
		return "default output does not parse: " + err.Error()
	}
	pb, err := parser.ParseFile(fb, "b.go", b, parser.ParseComments)
	if err != nil {
		return "custom output does not parse: " + err.Error()
	}
	funcs := func(f *ast.File, fs *token.FileSet, src []byte) map[string][]tok {
		m := map[string][]tok{}
		for _, d := range f.Decls {
			if fd, ok := d.(*ast.FuncDecl); ok {
				lo, hi := fs.Position(fd.Pos()).Offset, fs.Position(fd.End()).Offset
				ts, _ := scanAll(src[lo:hi])
				m[fd.Name.Name] = ts
			}
		}
		return m
	}
	ma, mb := funcs(pa, fa, a), funcs(pb, fb, b)
	if len(ma) != len(mb) {
		return fmt.Sprintf("default output has %d functions, custom output has %d\n default: %v\n custom : %v", len(ma), len(mb), sortedKeys(ma), sortedKeys(mb))
	}
	// imports
	imp := func(f *ast.File) string {
		var s []string
		for _, i := range f.Imports {
			n := ""
			if i.Name != nil {
				n = i.Name.Name + " "
			}
			s = append(s, n+i.Path.Value)
		}
		sort.Strings(s)
		return strings.Join(s, ";")
	}
	if imp(pa) != imp(pb) {
		return "imports differ: " + imp(pa) + " vs " + imp(pb)
	}
	fwd, back := map[string]string{}, map[string]string{}
	var queue []string
	bind := func(x, y string) string {
		if ex, ok := fwd[x]; ok {
			if ex != y {
				return fmt.Sprintf("function %s corresponds to both %s and %s", x, ex, y)
			}
			return ""
		}
		if ex, ok := back[y]; ok && ex != x {
			return fmt.Sprintf("functions %s and %s both correspond to %s", ex, x, y)
		}
		fwd[x], back[y] = y, x
		queue = append(queue, x)
		return ""
	}
	for _, x := range sortedKeys(seed) {
		if _, ok := ma[x]; !ok {
			return "default output lacks the called function " + x
		}
		if _, ok := mb[seed[x]]; !ok {
			return "custom output lacks the called function " + seed[x] + " (default: " + x + ")"
		}
		if e := bind(x, seed[x]); e != "" {
			return e
		}
	}
	for len(queue) > 0 {
		x := queue[0]
		queue = queue[1:]
		ta, tb := ma[x], mb[fwd[x]]
		if len(ta) != len(tb) {
			return fmt.Sprintf("functions %s and %s differ in length (%d vs %d tokens)", x, fwd[x], len(ta), len(tb))
		}
		for i := range ta {
			if ta[i].T != tb[i].T {
				return fmt.Sprintf("functions %s / %s: token %d %s %q vs %s %q", x, fwd[x], i, ta[i].T, ta[i].Lit, tb[i].T, tb[i].Lit)
			}
			if ta[i].T == token.COMMENT {
				continue // doc comments mention function names
			}
			if ta[i].Lit == tb[i].Lit {
				_, ga := ma[ta[i].Lit]
				_, gb := mb[tb[i].Lit]
				if ta[i].T == token.IDENT && ga && gb {
					if e := bind(ta[i].Lit, tb[i].Lit); e != "" {
						return e
					}
				}
				continue
			}
			_, ga := ma[ta[i].Lit]
			_, gb := mb[tb[i].Lit]
			if ta[i].T == token.IDENT && ga && gb {
				if e := bind(ta[i].Lit, tb[i].Lit); e != "" {
					return e
				}
				continue
			}
			return fmt.Sprintf("functions %s / %s differ at token %d: %q vs %q", x, fwd[x], i, ta[i].Lit, tb[i].Lit)
		}
	}
	if len(fwd) != len(ma) {
		var orphan []string
		for n := range ma {
			if _, ok := fwd[n]; !ok {
				orphan = append(orphan, n)
			}
		}
		sort.Strings(orphan)
		return fmt.Sprintf("%d functions of the default output are not reachable from the call sites: %v", len(orphan), orphan)
	}
	return ""
}

// callNames collects the derive-call identifiers of user sources.
func callNames(srcs map[string]string) []string {
	seen := map[string]bool{}
	for name, src := range srcs {
		if !strings.HasSuffix(name, ".go") {
			continue
		}
		ts, _ := scanAll([]byte(src))
		for i, t := range ts {
			if t.T == token.IDENT && strings.HasPrefix(t.Lit, "derive") && i+1 < len(ts) && ts[i+1].T == token.LPAREN && ownerOf(t.Lit, pluginPrefixes) != "" {
				seen[t.Lit] = true
			}
		}
	}
	return sortedKeys(seen)
}

func c12PrefixMaps() []prefixMap {
	return []prefixMap{
		{Name: "global-mk", Global: "mk"},
		{Name: "global-d", Global: "d"},
		{Name: "global-contains-derive", Global: "derivex"},
		{Name: "global-exported", Global: "Gen"},
		{Name: "per-equal-hash", Per: map[string]string{"equal": "eq", "hash": "hsh"}},
		{Name: "per-many", Per: map[string]string{"compare": "cmp", "sort": "srt", "keys": "kys", "clone": "cln", "deepcopy": "cpyTo", "gostring": "gostr", "contains": "has", "unique": "uniq"}},
		{Name: "nest-keys-in-equal", Per: map[string]string{"keys": "deriveEqualKeys"}},
		{Name: "nest-hash-under-equal", Per: map[string]string{"hash": "deriveEq"}},
		{Name: "nest-has-hash", Per: map[string]string{"contains": "has", "hash": "hash"}},
		{Name: "nest-fm-fmKeys", Per: map[string]string{"fmap": "fm", "keys": "fmKeys"}},
		{Name: "nest-srt-srted", Per: map[string]string{"sort": "srt", "set": "srted"}},
		{Name: "nest-mn-mnMemo", Per: map[string]string{"min": "mn", "mem": "mnMemo", "max": "mnMax"}},
		{Name: "nest-cpy-cpyTo", Per: map[string]string{"clone": "cpy", "deepcopy": "cpyTo"}},
		{Name: "nest-comp-compose", Per: map[string]string{"compare": "comp", "compose": "compose"}},
		{Name: "nest-chain", Per: map[string]string{"equal": "e", "hash": "ee", "compare": "eee", "clone": "eeee", "keys": "eeeee", "sort": "eeeeee"}},
		// overrides of medium length that do not start with "derive" (neither the shortest nor the longest prefix),
		// for plugins whose calls take another derive call as argument (second generation pass)
		{Name: "mid-sortedBy", Per: map[string]string{"sort": "sortedBy"}},
		{Name: "mid-sortedBy-mapKeysOf", Per: map[string]string{"sort": "sortedBy", "keys": "mapKeysOf"}},
		{Name: "mid-equal-clone", Per: map[string]string{"equal": "isTheSameAs", "clone": "makeCopyOf", "fmap": "applyToEach"}},
		// a plugin whose name ends with another plugin's name
		{Name: "uncurry-only", Per: map[string]string{"uncurry": "unc"}},
		{Name: "curry-then-uncurry", Per: map[string]string{"curry": "cur", "uncurry": "unc"}},
		{Name: "contains-any-all", Per: map[string]string{"any": "some", "all": "every", "contains": "holds"}},
		{Name: "both-global-and-override-with-derive", Global: "gen", Per: map[string]string{"equal": "deriveEqual", "compare": "deriveCmp"}},
		{Name: "both-global-and-override", Global: "zz", Per: map[string]string{"hash": "hh", "unique": "zzUniq"}},
	}
}

func checkC12(c *Ctx) {
	c.Anchors = []string{"derive"}
	c.Run.Rule = "cases = generated packages (type-directed plugins and list helpers over supported shapes, so that helpers are requested across plugins) x prefix maps (4 global -prefix values incl. one containing 'derive' and an exported one; per-plugin overrides; 9 maps that nest one plugin's prefix inside another's; both flags together incl. an override value containing 'derive') x plugin registration orders (identity + seeded permutations through hook H1). Per case the default-named package is generated with default flags, the renamed package with the custom flags; oracle: (a) for a global -prefix the custom output equals the default output with the prefix substituted, byte for byte; (b) always: both outputs are the same set of function declarations up to a renaming discovered by simultaneous traversal from the user's call sites (token-exact bodies, equal imports, no unreachable function); (c) the custom package compiles; (d) a call the owner of its longest matching prefix refuses stays refused when another plugin's prefix is nested inside that prefix (tuple, which accepts anything, nested under each of the other 32 plugins, plus clone/deepcopy, fmap/traverse, filter/takewhile). distinct_nontrivial = distinct (prefix map, registration order, package)"
	c.Run.Assume = []string{"'up to the choice of helper names' = isomorphism of the generated functions under a consistent bijective renaming", "registration orders are produced by the verif-tagged hook H1 (VERIF_PLUGIN_ORDER)"}
	c.Run.Floor = 20
	c.c12RefusalPreserved()
	// packages: reuse C01's type-directed generator (a few batches)
	sel := shapeSel{Forms: []string{"top", "field"}, QuickDeep: 16, QuickRand: 6, ThorRand: 60, BatchSize: 12,
		Ops: func(t *pgen.Type, form string) []string { return []string{"x"} }}
	batches := c.buildTypeBatches(sel)
	if c.Quick && len(batches) > 5 {
		r := rand.New(rand.NewSource(c.Seed*71 + 9))
		r.Shuffle(len(batches), func(i, j int) { batches[i], batches[j] = batches[j], batches[i] })
		batches = batches[:5]
	} else if len(batches) > 24 {
		batches = batches[:24]
	}
	type pkgSrc struct {
		name  string
		files map[string]string
	}
	var pkgs []pkgSrc
	for _, b := range batches {
		dd := dedupe{}
		var items []pgen.PItem
		for _, it := range b.Items {
			base := it.T
			isField := it.HasTag("form:field")
			if isField {
				base = it.T.Elem.Under.Fields[1].T
			}
			if containsCustom(base) || !behaviouralShape(base) {
				continue
			}
			// skip shapes hit by known generator defects that C01 reports (keeps C12 about prefixes)
			pi := pgen.PItem{TItem: it, Form: "body"}
			pi.Ops = dd.filter(typeOpsFor(it.T, ""), it.T)
			items = append(items, pi)
			if !isField {
				li := pgen.PItem{TItem: it, Form: "closure"}
				li.ID = it.ID + "L"
				li.Ops = dd.filter(listOpsFor(base), base)
				items = append(items, li)
			}
		}
		pkgs = append(pkgs, pkgSrc{b.Name, pgen.RenderPlainPackage(b.U, items)})
	}
	// functional plugins take part through a fixed hand-written file
	pkgs = append(pkgs, pkgSrc{"functional", map[string]string{"go.mod": pgen.GoMod, "p/p.go": c12Functional}})
	// packages whose ONLY pending call after the first pass is one nested call of one plugin: nothing else
	// keeps the generate / reload loop going
	for name, body := range map[string]string{
		"nested-only-sort":    "func ks(m map[string]int) []string { return deriveSort(deriveKeys(m)) }",
		"nested-only-equal":   "type T struct{ L []int }\n\nfunc same(a *T) bool { return deriveEqual(deriveClone(a), a) }",
		"nested-only-fmap":    "func f(k string) int { return len(k) }\n\nfunc lens(m map[string]bool) []int { return deriveFmap(f, deriveKeys(m)) }",
		"nested-only-uncurry": "func add(a, b int) int { return a + b }\n\nfunc same() func(int, int) int { return deriveUncurry(deriveCurry(add)) }",
		"nested-only-min":     "func smallest(m map[int]string) int { return deriveMin(deriveKeys(m), 0) }",
		"nested-only-unique":  "type T struct{ L []int }\n\nfunc u(l []*T) int { return len(deriveUnique(deriveSort(l))) }",
	} {
		pkgs = append(pkgs, pkgSrc{name, map[string]string{"go.mod": pgen.GoMod, "p/p.go": "package p\n\n" + body + "\n"}})
	}

	pms := c12PrefixMaps()
	orders := []string{""}
	for i := 0; i < tierN(c, 2, 5); i++ {
		orders = append(orders, fmt.Sprint(c.Seed*100+int64(i)+1))
	}
	type job struct {
		pkg   int
		pm    prefixMap
		order string
	}
	var jobs []job
	for pi := range pkgs {
		for mi, pm := range pms {
			for oi, o := range orders {
				if c.Quick && oi > 0 && (pi+mi+oi)%3 != 0 {
					continue
				}
				jobs = append(jobs, job{pi, pm, o})
			}
		}
	}
	// default outputs, one per package (and per order: the default run must not depend on it either)
	type defOut struct {
		ok      bool
		derived []byte
		stderr  string
	}
	defs := make([]defOut, len(pkgs))
	parallel(len(pkgs), 8, func(i int) {
		dir := c.Env.Dir("c12-def")
		grun.WriteTree(dir, pkgs[i].files)
		g := c.Goderive(dir, []string{"./p"})
		b, err := os.ReadFile(filepath.Join(dir, "p", "derived.gen.go"))
		defs[i] = defOut{g.Exit == 0 && err == nil, b, g.Stderr}
		if defs[i].ok {
			if bl := c.Go(dir, "build", "./p"); bl.Exit != 0 {
				defs[i].ok = false
				defs[i].stderr = "default package does not compile: " + bl.Stderr
			}
		}
		os.RemoveAll(dir)
	})
	for i, d := range defs {
		if !d.ok {
			c.Run.Inconclusive(fmt.Sprintf("package %s: default generation failed (left to C01): %s", pkgs[i].name, firstLine(d.stderr)))
		}
	}
	type jres struct {
		g       grun.Result
		derived []byte
		build   grun.Result
		files   map[string]string
	}
	res := make([]jres, len(jobs))
	parallel(len(jobs), 12, func(i int) {
		j := jobs[i]
		if !defs[j.pkg].ok {
			return
		}
		eff := j.pm.effective()
		files := map[string]string{}
		for k, v := range pkgs[j.pkg].files {
			if strings.HasSuffix(k, ".go") && strings.HasPrefix(k, "p/") {
				v = renameSource(v, eff)
			}
			files[k] = v
		}
		dir := c.Env.Dir("c12-" + j.pm.Name)
		grun.WriteTree(dir, files)
		var env []string
		if j.order != "" {
			env = append(env, "VERIF_PLUGIN_ORDER="+j.order)
		}
		g := c.Goderive(dir, append(j.pm.flags(), "./p"), env...)
		b, _ := os.ReadFile(filepath.Join(dir, "p", "derived.gen.go"))
		r := jres{g: g, derived: b, files: files}
		if g.Exit == 0 {
			r.build = c.Go(dir, "build", "./p")
		}
		res[i] = r
		os.RemoveAll(dir)
	})
	ns := 0
	for i, j := range jobs {
		if !defs[j.pkg].ok {
			continue
		}
		r := res[i]
		c.Run.Eval(1)
		class := fmt.Sprintf("%s|order=%s", j.pm.Name, map[bool]string{true: "identity", false: "permuted"}[j.order == ""])
		viol := func(sym, detail string) {
			files := mapWithPrefix(r.files, "tree/")
			files["default.derived.gen.go"] = string(defs[j.pkg].derived)
			files["custom.derived.gen.go"] = string(r.derived)
			c.Run.Violate(report.Violation{
				Key: class + "|" + sym, Summary: fmt.Sprintf("package %s flags %v VERIF_PLUGIN_ORDER=%q: %s", pkgs[j.pkg].name, j.pm.flags(), j.order, sym),
				Detail: detail, Files: files,
				Replay: "#!/bin/sh\n# compare tree/ regenerated with the recorded flags against default.derived.gen.go\nexport VERIF_PLUGIN_ORDER=" + j.order + "\n" + strings.TrimPrefix(replayScript(strings.Join(append(j.pm.flags(), "./p"), " "), "go build ./p || exit 1\nexit 0"), "#!/bin/sh\n"),
			})
		}
		if r.g.Crash != "" || r.g.Exit != 0 {
			viol("custom-run-fails", trunc(r.g.Stderr, 1500))
			continue
		}
		if r.build.Exit != 0 {
			viol("custom-package-does-not-compile", trunc(r.build.Stderr+r.build.Stdout, 1500))
			continue
		}
		eff := j.pm.effective()
		seed := map[string]string{}
		for _, n := range callNames(pkgs[j.pkg].files) {
			pl := ownerOf(n, pluginPrefixes)
			seed[n] = eff[pl] + n[len(pluginPrefixes[pl]):]
		}
		if why := isoCompare(defs[j.pkg].derived, r.derived, seed); why != "" {
			viol("not-a-renaming", why)
			continue
		}
		if j.pm.Global != "" && len(j.pm.Per) == 0 {
			// textual identity for a global prefix: substitute the prefix everywhere but in the header line
			d := string(defs[j.pkg].derived)
			nl := strings.IndexByte(d, '\n')
			exp := d[:nl] + strings.ReplaceAll(d[nl:], "derive", j.pm.Global)
			if exp != string(r.derived) {
				viol("global-prefix-output-not-textually-identical", firstDiff(exp, string(r.derived)))
				continue
			}
			c.Run.Count("textual_identity_checks", 1)
		}
		c.Run.Distinct(class + "|" + pkgs[j.pkg].name)
		if ns < 5 {
			ns++
			c.Run.Sample(map[string]any{"package": pkgs[j.pkg].name, "flags": j.pm.flags(), "plugin_order_seed": j.order, "functions_matched": len(seed), "bytes": len(r.derived)})
		}
	}
}

func firstDiff(a, b string) string {
	la, lb := strings.Split(a, "\n"), strings.Split(b, "\n")
	for i := 0; i < len(la) && i < len(lb); i++ {
		if la[i] != lb[i] {
			return fmt.Sprintf("line %d:\n expected: %s\n got     : %s", i+1, la[i], lb[i])
		}
	}
	return fmt.Sprintf("line counts differ: %d vs %d", len(la), len(lb))
}

const c12Functional = `package p

import "errors"

type T struct {
	A int
	B []string
}

func f1(a int, b string) (int, error) { return a + len(b), nil }

func f2(x int) (string, error) { return "", errors.New("x") }

func pred(a int) bool { return a > 0 }

func add(a, b int) int { return a + b }

func sub(a, b string) string { return a + b }

func use() {
	_ = deriveCompose(f1, f2)
	_ = deriveFmap(func(a int) string { return "" }, []int{1})
	_ = deriveJoin([][]int{{1}})
	_ = deriveCurry(add)
	_ = deriveUncurry(deriveCurryB(sub))
	_ = deriveFlip(f1)
	_ = deriveApply(add, 1)
	_ = deriveTuple(1, "a")
	_, _ = deriveTraverse(f2, []int{1, 2})
	_ = deriveMem(add)
	_ = deriveFilter(pred, []int{1})
	_ = deriveAll(pred, []int{1})
	_ = deriveAny(pred, []int{1})
	_ = deriveTakeWhile(pred, []int{1})
	_ = deriveUnique([]*T{})
	_ = deriveContains([]*T{}, &T{})
	_ = deriveSet([]int{1})
	_ = deriveUnion([]*T{}, []*T{})
	_ = deriveIntersect([]int{}, []int{})
	_ = deriveMin([]int{1}, 0)
	_ = deriveMax(1, 2)
	_ = deriveSort(deriveKeys(map[string]*T{}))
	_ = deriveToError(errors.New("e"), func(a int) (int, bool) { return a, true })
	_, _, _ = deriveDo(func() (int, error) { return 1, nil }, func() (string, error) { return "", nil })
	c1, c2 := deriveDup(make(<-chan int))
	_, _ = c1, c2
	_ = derivePipeline(func(a int) <-chan string { return nil }, func(s string) <-chan *T { return nil })
	_ = deriveHash(&T{})
	_ = deriveClone(&T{})
	_ = deriveGoString(&T{})
	_ = deriveCompare(&T{}, &T{})
	_ = deriveEqual(&T{}, &T{})
	deriveDeepCopy(&T{}, &T{})
}
`

// c12RefusalPreserved: a call that the plugin owning its (longest matching) prefix refuses must stay
// refused when another plugin's prefix is nested inside that prefix: it is never handed to the plugin
// with the shorter prefix. Tuple accepts any argument list, so it is the universal shorter candidate;
// two natural pairs (clone under deepcopy, fmap under traverse) are added.
func (c *Ctx) c12RefusalPreserved() {
	type job struct {
		owner, short, prefix, src string
		order                     string
	}
	var jobs []job
	decl := "package p\n\ntype Rec struct{ L []int }\n\nfunc itoa(x int) string { return \"\" }\n\n"
	for owner, px := range pluginPrefixes {
		if owner == "tuple" {
			continue
		}
		// (1, "x") is no valid argument list of any plugin but tuple
		jobs = append(jobs, job{owner: owner, short: "tuple", prefix: px[:len(px)-2], src: decl + "func use() { " + px + "(1, \"x\") }\n"})
	}
	jobs = append(jobs, job{owner: "deepcopy", short: "clone", prefix: "deriveDeep", src: decl + "func use(r *Rec) { deriveDeepCopy(r) }\n"})
	jobs = append(jobs, job{owner: "traverse", short: "fmap", prefix: "deriveTra", src: decl + "func use(xs []int) { deriveTraverse(itoa, xs) }\n"})
	jobs = append(jobs, job{owner: "takewhile", short: "filter", prefix: "deriveTake", src: decl + "func use(xs []int) { deriveTakeWhile(xs) }\n"})
	n := len(jobs)
	for i := 0; i < n; i++ {
		if i%3 == int(c.Seed%3) || !c.Quick {
			j := jobs[i]
			j.order = fmt.Sprint(c.Seed*100 + int64(i) + 1)
			jobs = append(jobs, j)
		}
	}
	type res struct{ def, cus grun.Result }
	outs := make([]res, len(jobs))
	parallel(len(jobs), 14, func(i int) {
		j := jobs[i]
		dir := c.Env.Dir("c12-refuse")
		defer os.RemoveAll(dir)
		grun.WriteTree(dir, map[string]string{"go.mod": pgen.GoMod, "p/p.go": j.src})
		outs[i].def = c.Goderive(dir, []string{"./p"})
		os.Remove(filepath.Join(dir, "p", "derived.gen.go"))
		var env []string
		if j.order != "" {
			env = append(env, "VERIF_PLUGIN_ORDER="+j.order)
		}
		outs[i].cus = c.Goderive(dir, []string{"-pluginprefix=" + j.short + "=" + j.prefix, "./p"}, env...)
	})
	for i, j := range jobs {
		o := outs[i]
		if o.def.Exit == 0 {
			c.Run.Count("refusal_cases_accepted_by_default", 1)
			continue
		}
		c.Run.Eval(1)
		key := fmt.Sprintf("refusal|owner=%s|short=%s", j.owner, j.short)
		switch {
		case o.cus.Crash != "":
			c.Run.Violate(report.Violation{Key: key + "|crash", Summary: "custom run crashed", Detail: trunc(o.cus.Stderr, 1200), Files: map[string]string{"tree/go.mod": pgen.GoMod, "tree/p/p.go": j.src}})
		case o.cus.Exit == 0:
			c.Run.Violate(report.Violation{Key: key + "|refused-call-handed-to-shorter-prefix",
				Summary: fmt.Sprintf("with -pluginprefix=%s=%s (order %q) a call that %s refuses by default is accepted", j.short, j.prefix, j.order, j.owner),
				Detail:  "default run: " + firstLine(o.def.Stderr) + "\ncustom run: exit 0", Files: map[string]string{"tree/go.mod": pgen.GoMod, "tree/p/p.go": j.src},
				Replay: replayScript("-pluginprefix="+j.short+"="+j.prefix+" ./p && exit 1", "exit 0")})
		default:
			c.Run.Distinct(key)
			c.Run.Count("refusal_preserved", 1)
		}
	}
}
