package mon

import (
	"math"
	"math/rand"
	"reflect"
)

// Mode biases a generated value towards a boundary.
type Mode int

const (
	ModeRandom  Mode = iota
	ModeZero         // Go zero value (all nil)
	ModeEmpty        // every container non-nil and empty, pointers non-nil
	ModeFull         // every container non-nil with >= 2 elements, pointers non-nil
	ModeNilDeep      // containers present at the top, nil below
	ModeBig          // like ModeFull, but maps at depth <= 1 hold about 70 entries
)

// Strings is the boundary-biased string pool: quotes, backquotes, newlines, invalid UTF-8,
// 2/3/4-byte runes, NUL, format verbs, hash-colliding pairs under the 31*h+c fold ("Aa"/"BB").
var Strings = []string{"", "a", "b", "ab", "Aa", "BB", "AaAa", "BBBB", "a\"b", "line\nbreak", "`bq`", "\xff\xfe", "a\xffb", "é", "世界", "😀", "a\x00b", "%d%s", "tab\t", "\\", "abc", "Abc", "ABC", "z"}

var ints = []int64{0, 1, -1, 2, 3, 7, -7, 100, math.MaxInt8, math.MinInt8, math.MaxInt16, math.MinInt16, math.MaxInt32, math.MinInt32, math.MaxInt64, math.MinInt64}
var uints = []uint64{0, 1, 2, 3, 7, 100, math.MaxUint8, math.MaxUint16, math.MaxUint32, math.MaxUint64}
var floats = []float64{0, math.Copysign(0, -1), 1, -1, 0.5, 2.5, -2.5, 3.141592653589793, 1e-320, 5e-324, math.MaxFloat64, -math.MaxFloat64, 1e21, 123456789.125, 0.1}
var floats32 = []float64{0, math.Copysign(0, -1), 1, -1, 0.5, 2.5, -2.5, float64(float32(3.1415927)), float64(math.SmallestNonzeroFloat32), float64(math.MaxFloat32), float64(float32(0.1)), 16777216}

// Gen generates values by reflection.
type Gen struct {
	R        *rand.Rand
	MaxDepth int
	NoShare  bool                             // never reuse pointers inside one value (tree-shaped values)
	NaNKeys  bool                             // float map keys may be NaN (only for prior destination states: values under comparison are NaN-free)
	bigMaps  bool                             // maps near the top get ~70 entries (set by ModeBig)
	shared   map[reflect.Type][]reflect.Value // pointers created in the current value, for DAG sharing
}

// NewGen creates a generator.
func NewGen(seed int64) *Gen { return &Gen{R: rand.New(rand.NewSource(seed)), MaxDepth: 5} }

// Value generates one value of type t.
func (g *Gen) Value(t reflect.Type, m Mode) reflect.Value {
	g.shared = map[reflect.Type][]reflect.Value{}
	g.bigMaps = m == ModeBig
	if m == ModeBig {
		m = ModeFull
	}
	v := reflect.New(t).Elem()
	g.fill(v, m, 0)
	return v
}

func (g *Gen) fitInt(v reflect.Value, x int64) int64 {
	if v.OverflowInt(x) {
		bits := v.Type().Bits()
		if x > 0 {
			return int64(1)<<(bits-1) - 1
		}
		return -(int64(1) << (bits - 1))
	}
	return x
}

func (g *Gen) fitUint(v reflect.Value, x uint64) uint64 {
	if v.OverflowUint(x) {
		return uint64(1)<<v.Type().Bits() - 1
	}
	return x
}

func (g *Gen) float(bits int, m Mode) float64 {
	if m == ModeZero {
		return 0
	}
	if bits == 32 {
		if g.R.Intn(3) == 0 {
			return float64(float32(g.R.NormFloat64() * 100))
		}
		return floats32[g.R.Intn(len(floats32))]
	}
	if g.R.Intn(3) == 0 {
		return g.R.NormFloat64() * 1000
	}
	return floats[g.R.Intn(len(floats))]
}

func (g *Gen) fill(v reflect.Value, m Mode, depth int) {
	r := g.R
	deep := depth >= g.MaxDepth
	sub := m
	if m == ModeNilDeep && depth >= 1 {
		sub = ModeZero
	}
	switch v.Kind() {
	case reflect.Bool:
		if m != ModeZero {
			v.SetBool(r.Intn(2) == 0)
		}
	case reflect.Int, reflect.Int8, reflect.Int16, reflect.Int32, reflect.Int64:
		if m != ModeZero {
			if r.Intn(3) == 0 {
				v.SetInt(g.fitInt(v, int64(r.Intn(9))-4))
			} else {
				v.SetInt(g.fitInt(v, ints[r.Intn(len(ints))]))
			}
		}
	case reflect.Uint, reflect.Uint8, reflect.Uint16, reflect.Uint32, reflect.Uint64, reflect.Uintptr:
		if m != ModeZero {
			if r.Intn(3) == 0 {
				v.SetUint(g.fitUint(v, uint64(r.Intn(6))))
			} else {
				v.SetUint(g.fitUint(v, uints[r.Intn(len(uints))]))
			}
		}
	case reflect.Float32:
		v.SetFloat(g.float(32, m))
	case reflect.Float64:
		v.SetFloat(g.float(64, m))
	case reflect.Complex64:
		v.SetComplex(complex(g.float(32, m), g.float(32, m)))
	case reflect.Complex128:
		v.SetComplex(complex(g.float(64, m), g.float(64, m)))
	case reflect.String:
		if m != ModeZero {
			v.SetString(Strings[r.Intn(len(Strings))])
		}
	case reflect.Pointer:
		isNil := false
		switch m {
		case ModeZero:
			isNil = true
		case ModeEmpty, ModeFull:
			isNil = deep
		case ModeNilDeep:
			isNil = depth >= 1
		default:
			isNil = deep || r.Intn(4) == 0
		}
		if isNil {
			return
		}
		if !g.NoShare && m == ModeRandom && len(g.shared[v.Type()]) > 0 && r.Intn(6) == 0 {
			v.Set(g.shared[v.Type()][r.Intn(len(g.shared[v.Type()]))])
			return
		}
		p := reflect.New(v.Type().Elem())
		g.fill(p.Elem(), sub, depth+1)
		v.Set(p)
		g.shared[v.Type()] = append(g.shared[v.Type()], p)
	case reflect.Slice:
		n, extra, isNil := 0, 0, false
		switch m {
		case ModeZero:
			isNil = true
		case ModeEmpty:
			n = 0
		case ModeFull:
			n = 2 + r.Intn(2)
			if deep {
				n = 0
			}
		case ModeNilDeep:
			isNil = depth >= 1
			n = 1
		default:
			switch k := r.Intn(10); {
			case k < 2:
				isNil = true
			case k < 4:
				n = 0
			case k < 6:
				n = 1
			default:
				n = 2 + r.Intn(3)
			}
			if deep {
				n = 0
			}
			if r.Intn(3) == 0 {
				extra = 1 + r.Intn(3)
			}
		}
		if isNil {
			return
		}
		s := reflect.MakeSlice(v.Type(), n, n+extra)
		for i := 0; i < n; i++ {
			g.fill(s.Index(i), sub, depth+1)
		}
		v.Set(s)
	case reflect.Array:
		for i := 0; i < v.Len(); i++ {
			g.fill(v.Index(i), sub, depth+1)
		}
	case reflect.Map:
		n, isNil := 0, false
		switch m {
		case ModeZero:
			isNil = true
		case ModeEmpty:
			n = 0
		case ModeFull:
			n = 2 + r.Intn(2)
			if deep {
				n = 0
			}
		case ModeNilDeep:
			isNil = depth >= 1
			n = 1
		default:
			switch k := r.Intn(10); {
			case k < 2:
				isNil = true
			case k < 4:
				n = 0
			case k < 6:
				n = 1
			default:
				n = 2 + r.Intn(4)
			}
			if deep {
				n = 0
			}
		}
		if isNil {
			return
		}
		if g.bigMaps && depth <= 1 && syntheticKey(reflect.New(v.Type().Key()).Elem(), 0) {
			n = 66 + r.Intn(8)
		}
		mp := reflect.MakeMapWithSize(v.Type(), n)
		for i := 0; i < n; i++ {
			k := reflect.New(v.Type().Key()).Elem()
			km := ModeRandom
			g.fill(k, km, depth+1)
			if n > 60 {
				syntheticKey(k, i)
			}
			if g.NaNKeys && r.Intn(3) == 0 {
				nanKey(k)
			}
			e := reflect.New(v.Type().Elem()).Elem()
			es := sub
			if m == ModeRandom && r.Intn(4) == 0 {
				es = ModeZero // zero-valued elements make "missing key" vs "present with zero" distinguishable only by presence
			}
			g.fill(e, es, depth+1)
			mp.SetMapIndex(k, e)
			// keys that hold pointers: every second entry gets a twin whose key is a fresh copy (another
			// pointer, equal contents) with another element: two keys, not one
			if keyHasPointer(v.Type().Key()) && i%2 == 0 && n <= 60 {
				k2 := DeepClone(k)
				e2 := reflect.New(v.Type().Elem()).Elem()
				g.fill(e2, ModeRandom, depth+1)
				mp.SetMapIndex(k2, e2)
			}
		}
		v.Set(mp)
	case reflect.Struct:
		for i := 0; i < v.NumField(); i++ {
			g.fill(field(v, i), sub, depth+1)
		}
	case reflect.Interface, reflect.Chan, reflect.Func, reflect.UnsafePointer:
		// left nil
	}
}

// syntheticKey sets k to the i-th of many distinct keys; false if the key kind has too few values.
func syntheticKey(k reflect.Value, i int) bool {
	switch k.Kind() {
	case reflect.String:
		k.SetString("key-" + string(rune('a'+i%26)) + string(rune('a'+i/26)))
		return true
	case reflect.Int, reflect.Int16, reflect.Int32, reflect.Int64:
		k.SetInt(int64(i*37 - 1000))
		return true
	case reflect.Uint, reflect.Uint16, reflect.Uint32, reflect.Uint64, reflect.Uintptr:
		k.SetUint(uint64(i * 37))
		return true
	case reflect.Float32, reflect.Float64:
		k.SetFloat(float64(i) * 0.5)
		return true
	}
	return false
}

// nanKey puts a NaN into the first float found in a map key (prior destination states only).
func nanKey(k reflect.Value) bool {
	switch k.Kind() {
	case reflect.Float32, reflect.Float64:
		k.SetFloat(math.NaN())
		return true
	case reflect.Complex64, reflect.Complex128:
		k.SetComplex(complex(math.NaN(), 0))
		return true
	case reflect.Array:
		if k.Len() > 0 {
			return nanKey(k.Index(0))
		}
	case reflect.Struct:
		for i := 0; i < k.NumField(); i++ {
			if nanKey(field(k, i)) {
				return true
			}
		}
	}
	return false
}

// Pool returns a boundary-biased pool of n values of type t: the zero value, the all-empty value,
// a full value, a "containers at the top, nil below" value and random ones.
func (g *Gen) Pool(t reflect.Type, n int) []reflect.Value {
	out := []reflect.Value{g.Value(t, ModeZero), g.Value(t, ModeEmpty), g.Value(t, ModeFull), g.Value(t, ModeNilDeep)}
	if hasMap(t, map[reflect.Type]bool{}, 0) && n > 5 {
		out = append(out, g.Value(t, ModeBig))
	}
	for len(out) < n {
		out = append(out, g.Value(t, ModeRandom))
	}
	return out[:n]
}

// hasMap reports a map type at depth <= 2 of t.
func hasMap(t reflect.Type, seen map[reflect.Type]bool, depth int) bool {
	if seen[t] || depth > 2 {
		return false
	}
	seen[t] = true
	switch t.Kind() {
	case reflect.Map:
		return true
	case reflect.Pointer, reflect.Slice, reflect.Array:
		return hasMap(t.Elem(), seen, depth+1)
	case reflect.Struct:
		for i := 0; i < t.NumField(); i++ {
			if hasMap(t.Field(i).Type, seen, depth+1) {
				return true
			}
		}
	}
	return false
}
