package mon

import (
	"errors"
	"fmt"
	"hash/fnv"
	"math"
	"reflect"
	"sort"
	"strings"
	"time"
)

// Call is one logged invocation of an instrumented user function.
type Call struct {
	Fn   string
	Args []string // canonical encodings
}

// C builds an expected call.
func C(fn string, args ...any) Call {
	c := Call{Fn: fn}
	for _, a := range args {
		c.Args = append(c.Args, CanonOf(a))
	}
	return c
}

// CanonOf encodes an interface value by its dynamic type ("nil" for a nil interface).
func CanonOf(x any) string {
	if x == nil {
		return "nil"
	}
	if e, ok := x.(error); ok {
		return fmt.Sprintf("error(%p:%s)", e, e.Error())
	}
	v := reflect.ValueOf(x)
	if v.Kind() == reflect.Func || v.Kind() == reflect.Chan {
		return fmt.Sprintf("%s@%x", v.Kind(), v.Pointer())
	}
	return Canon(v)
}

// FT is the context of one functional item under test.
type FT struct {
	ID     string
	N      int // argument vectors per item
	Seed   int64
	rep    *Rep
	log    []Call
	paused bool
	fail   map[string]error
}

// cur is the item being evaluated (the functional monitors are single-threaded).
var cur *FT

// FuncItem is a registered functional item.
type FuncItem struct {
	ID    string
	Shape string
	Tags  []string
	Run   func(t *FT)
}

var funcItems []*FuncItem

// RegFunc registers a functional item.
func RegFunc(id, shape string, tags []string, run func(t *FT)) {
	funcItems = append(funcItems, &FuncItem{id, shape, tags, run})
}

func init() {
	for _, p := range []string{"C15", "C16", "C17", "C18"} {
		mains[p] = funcMain
	}
}

func funcMain(c Config, emit func(*Rep)) {
	sort.SliceStable(funcItems, func(i, j int) bool { return funcItems[i].ID < funcItems[j].ID })
	for _, it := range funcItems {
		if c.Only != nil && !c.Only[it.ID] {
			continue
		}
		Progress(it.ID)
		r := newRep(it.ID, c.Prop, it.Shape)
		t := &FT{ID: it.ID, N: c.PoolN, Seed: itemSeed(c.Seed, it.ID), rep: r, fail: map[string]error{}}
		cur = t
		done := make(chan string, 1)
		go func() { done <- try(func() { it.Run(t) }) }()
		select {
		case p := <-done:
			if p != "" {
				r.Fail("panic", "the derived code (or the monitor) panicked: %s", p)
			}
		case <-time.After(20 * time.Second):
			// the item did not come back: decide from two goroutine dumps whether derived code is blocked
			// for good (same goroutines, blocking states) or merely slow
			a := derivedGoroutines()
			time.Sleep(300 * time.Millisecond)
			b := derivedGoroutines()
			ida := map[string]bool{}
			for _, g := range a {
				ida[g.ID] = true
			}
			all := len(b) > 0
			var st []string
			for _, g := range b {
				st = append(st, "goroutine "+g.ID+" ["+g.State+"]")
				if !ida[g.ID] || !blockedState(g.State) {
					all = false
				}
			}
			if all {
				r.Fail("deadlock", "the call into derived code never returned; goroutines in derived code, unchanged over two samples: %s", strings.Join(st, ", "))
			} else {
				r.Res.Skipped = "watchdog: item still running after 20 s and derived code is not provably blocked (" + strings.Join(st, ", ") + ")"
			}
		}
		cur = nil
		emit(r)
	}
	Progress("")
}

// Log records a call of an instrumented function (called from generated user functions).
func Log(fn string, args ...any) {
	if cur == nil || cur.paused {
		return
	}
	c := Call{Fn: fn}
	for _, a := range args {
		c.Args = append(c.Args, CanonOf(a))
	}
	cur.log = append(cur.log, c)
}

func hashOf(parts ...string) int64 {
	h := fnv.New64a()
	for _, p := range parts {
		h.Write([]byte(p))
		h.Write([]byte{0})
	}
	return int64(h.Sum64() >> 1)
}

// Ret is the deterministic idx-th result of instrumented function fn on the given arguments.
func Ret[T any](fn string, idx int, args ...any) T {
	parts := []string{fn, fmt.Sprint(idx)}
	for _, a := range args {
		parts = append(parts, CanonOf(a))
	}
	g := NewGen(hashOf(parts...))
	g.NoShare = true
	var z T
	t := reflect.TypeOf(&z).Elem()
	v := g.Value(t, ModeRandom)
	if t.Kind() == reflect.Interface {
		// a non-nil dynamic value so that "passed on unchanged" is observable
		if t.NumMethod() == 0 {
			v.Set(reflect.ValueOf(fmt.Sprintf("dyn-%s-%d-%d", fn, idx, hashOf(parts...)%1000)))
		}
	}
	return asT[T](v)
}

// RetBool is a deterministic boolean result.
func RetBool(fn string, args ...any) bool {
	parts := []string{fn, "bool"}
	for _, a := range args {
		parts = append(parts, CanonOf(a))
	}
	return hashOf(parts...)%2 == 0
}

// Arg is the i-th test value for parameter position pos.
func Arg[T any](t *FT, pos, i int) T {
	var z T
	ty := reflect.TypeOf(&z).Elem()
	g := NewGen(hashOf(t.ID, fmt.Sprint(t.Seed), fmt.Sprint(pos), fmt.Sprint(i)))
	g.NoShare = true
	m := ModeRandom
	switch i {
	case 0:
		m = ModeFull
	case 1:
		m = ModeZero
	}
	v := g.Value(ty, m)
	if ty.Kind() == reflect.Interface && ty.NumMethod() == 0 && i != 1 {
		v.Set(reflect.ValueOf(fmt.Sprintf("arg-%d-%d", pos, i)))
	}
	// vectors 2/3: arguments that collide under goderive's 31-fold hashes; 4/5: +0 / -0
	switch {
	case ty == reflect.TypeOf([]int(nil)) && i == 2:
		return any([]int{0, 31}).(T)
	case ty == reflect.TypeOf([]int(nil)) && i == 3:
		return any([]int{1, 0}).(T)
	case ty.Kind() == reflect.String && i == 2:
		v.SetString("Aa")
		return asT[T](v)
	case ty.Kind() == reflect.String && i == 3:
		v.SetString("BB")
		return asT[T](v)
	case ty.Kind() == reflect.String && (i == 4 || i == 5):
		// vectors 4/5: a NUL byte on either side of a parameter boundary ("a\x00","b") vs ("a","\x00b")
		s := [2][2]string{{"a\x00", "a"}, {"b", "\x00b"}}[pos%2][i-4]
		v.SetString(s)
		return asT[T](v)
	case ty.Kind() == reflect.Float64 && i == 4:
		v.SetFloat(0)
		return asT[T](v)
	case ty.Kind() == reflect.Float64 && i == 5:
		v.SetFloat(math.Copysign(0, -1))
		return asT[T](v)
	case (ty.Kind() == reflect.Complex128 || ty.Kind() == reflect.Complex64) && (i == 4 || i == 5):
		// == values that differ only in the sign of a zero imaginary (4/5) part
		v.SetComplex(complex(1, signedZero(i == 5)))
		return asT[T](v)
	case ty.Kind() == reflect.Slice && (i == 4 || i == 5 || i == 6):
		// lists holding +0 / -0 (real for floats; imaginary, then real part for complex numbers)
		switch ty.Elem().Kind() {
		case reflect.Float64, reflect.Float32:
			if i < 6 {
				l := reflect.MakeSlice(ty, 2, 2)
				l.Index(0).SetFloat(signedZero(i == 5))
				l.Index(1).SetFloat(2)
				return asT[T](l)
			}
		case reflect.Complex128, reflect.Complex64:
			l := reflect.MakeSlice(ty, 2, 2)
			l.Index(0).SetComplex(complex(1, signedZero(i == 5)))
			l.Index(1).SetComplex(complex(signedZero(i == 6), 3))
			return asT[T](l)
		}
	}
	// small integer kinds: their extreme and negative values (vectors 2/3)
	switch ty.Kind() {
	case reflect.Int8, reflect.Int16, reflect.Int32:
		if i == 2 {
			v.SetInt(-1 << (ty.Bits() - 1))
			return asT[T](v)
		}
		if i == 3 {
			v.SetInt(-1)
			return asT[T](v)
		}
	case reflect.Uint8, reflect.Uint16:
		if i == 2 {
			v.SetUint(1<<ty.Bits() - 1)
			return asT[T](v)
		}
	}
	if i != 1 && (ty.Kind() == reflect.Int || ty.Kind() == reflect.Int64) {
		// distinct values per position make a swap of same-typed arguments observable
		v.SetInt(int64(1000*(pos+1) + i))
	}
	if i != 1 && ty.Kind() == reflect.String {
		v.SetString(fmt.Sprintf("%s#p%d", v.String(), pos))
	}
	return asT[T](v)
}

func signedZero(neg bool) float64 {
	if neg {
		return math.Copysign(0, -1)
	}
	return 0
}

// Reset clears the call log and the injected failures.
func (t *FT) Reset() { t.log = nil; t.fail = map[string]error{} }

// Pause / Resume suspend logging (for reference calls made by the monitor itself).
func (t *FT) Pause()  { t.paused = true }
func (t *FT) Resume() { t.paused = false }

// FailAt injects an error object for stage fn and returns it.
func (t *FT) FailAt(fn string) error {
	e := errors.New("injected failure of " + fn)
	t.fail[fn] = e
	return e
}

// Fail returns the error injected for fn (nil if none); called from instrumented stages.
func Fail(fn string) error {
	if cur == nil {
		return nil
	}
	return cur.fail[fn]
}

// FailFor decides, as a pure function of the function name and its arguments, whether an instrumented
// function fails for these arguments (about every second argument tuple does), and returns the error.
func FailFor(fn string, args ...any) error {
	key := fn
	for _, a := range args {
		key += "|" + CanonOf(a)
	}
	if hashOf("failfor", key)%2 == 0 {
		// one error value per argument class, so that identity is deterministic too
		if e, ok := failForCache[key]; ok {
			return e
		}
		e := errors.New("deterministic failure of " + fn + " for " + key)
		failForCache[key] = e
		return e
	}
	return nil
}

var failForCache = map[string]error{}

// Ok / Bad record an evaluation.
func (t *FT) Ok(class string)                    { t.rep.Ok(class) }
func (t *FT) Bad(class, format string, a ...any) { t.rep.Fail(class, format, a...) }

// Expect compares the call log with the expected calls (exactly, in order).
func (t *FT) Expect(class string, calls ...Call) bool {
	ok := len(calls) == len(t.log)
	for i := 0; ok && i < len(calls); i++ {
		ok = calls[i].Fn == t.log[i].Fn && strings.Join(calls[i].Args, "\x00") == strings.Join(t.log[i].Args, "\x00")
	}
	if !ok {
		t.rep.Fail(class+"/call-log", "instrumented functions were called as %s; expected %s", fmtCalls(t.log), fmtCalls(calls))
		return false
	}
	t.rep.Ok(class + "/call-log")
	return true
}

// CallCount returns how often fn was called since the last Reset.
func (t *FT) CallCount(fn string) int {
	n := 0
	for _, c := range t.log {
		if c.Fn == fn {
			n++
		}
	}
	return n
}

// LogLen is the number of logged calls.
func (t *FT) LogLen() int { return len(t.log) }

func fmtCalls(cs []Call) string {
	var parts []string
	for _, c := range cs {
		parts = append(parts, c.Fn+"("+strings.Join(c.Args, ", ")+")")
	}
	s := "[" + strings.Join(parts, " ") + "]"
	if len(s) > 700 {
		s = s[:700] + "…"
	}
	return s
}

// Same asserts that two values have the same canonical encoding.
func Same[T any](t *FT, class string, got, want T) bool {
	g, w := CanonOf(any(got)), CanonOf(any(want))
	if g != w {
		t.rep.Fail(class, "got %s, want %s", trunc(g), trunc(w))
		return false
	}
	t.rep.Ok(class)
	return true
}

// SameErr asserts error identity.
func SameErr(t *FT, class string, got, want error) bool {
	if got != want {
		t.rep.Fail(class, "returned error %v (%p) is not the expected error object %v (%p)", got, got, want, want)
		return false
	}
	t.rep.Ok(class)
	return true
}

// IsZero asserts that v is the zero value of its static type.
func IsZero[T any](t *FT, class string, v T) bool {
	rv := reflect.ValueOf(&v).Elem()
	if !rv.IsZero() {
		t.rep.Fail(class, "expected the zero value of %s next to the error, got %s", rv.Type(), trunc(CanonOf(any(v))))
		return false
	}
	t.rep.Ok(class)
	return true
}

func trunc(s string) string {
	if len(s) > 300 {
		return s[:300] + "…"
	}
	return s
}

// Strs is the string pool for Fmap/Join over strings: ASCII, 2/3/4-byte runes, mixed, invalid encodings.
var Strs = []string{"", "a", "abc", "é", "éa", "aé", "世界", "a世b界c", "😀", "x😀y", "\xff", "a\xffb", "\xe4\xb8", "\xf0\x9f\x98", "ab\x80\x80", "日本語テキスト", "mixé世😀\xfez", "\x00", "%d", "tab\t\n",
	// the replacement character itself, correctly encoded (a decoder must not take it for an error), next to real errors
	"\uFFFD", "ok \uFFFD ok", "\uFFFD\xff\uFFFD", "\xef\xbf", "\U0010FFFF", "\xed\xa0\x80"}

// MemIndex maps a step of a Mem call sequence to an argument-vector index: a small range so that
// arguments repeat (as fresh, Equal-but-not-identical copies), including the colliding and +-0 vectors.
func MemIndex(t *FT, step int) int {
	return int(hashOf(t.ID, "memidx", fmt.Sprint(step/2)) % 7)
}

// asT converts a reflect value of T's type to T (also for interface types holding nil).
func asT[T any](v reflect.Value) T {
	var z T
	reflect.ValueOf(&z).Elem().Set(v)
	return z
}

// NoteAlias records (as an observation class, never as a violation) that a result shares memory
// with an input. The properties say nothing about aliasing, so this does not decide anything; it
// is kept visible in the evidence.
func NoteAlias(t *FT, class string, result, input any) {
	if result == nil || input == nil {
		return
	}
	if Overlap(Reach(reflect.ValueOf(result)), Reach(reflect.ValueOf(input))) != "" {
		t.rep.Res.Classes["observation:"+class]++
	}
}
