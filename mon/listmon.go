package mon

import (
	"fmt"
	"hash/fnv"
	"reflect"
	"sort"
	"strings"
)

func init() {
	monitors["C13"] = monC13
	monitors["C14"] = monC14
}

// mkList builds a []T from values (deep clones, so that in-place helpers cannot disturb the pool).
func mkList(t reflect.Type, vals []reflect.Value, nilList bool) reflect.Value {
	st := reflect.SliceOf(t)
	if nilList {
		return reflect.Zero(st)
	}
	l := reflect.MakeSlice(st, len(vals), len(vals))
	for i, v := range vals {
		l.Index(i).Set(DeepClone(v))
	}
	return l
}

func canonList(l reflect.Value) []string {
	out := make([]string, l.Len())
	for i := range out {
		out[i] = Canon(l.Index(i))
	}
	return out
}

func multiset(cs []string) string {
	s := append([]string{}, cs...)
	sort.Strings(s)
	return strings.Join(s, "\x00")
}

// testLists derives the boundary-biased lists of the property from a value pool: nil, empty,
// singletons, duplicates (identical and equal-but-not-identical copies), sorted / reversed (by the
// given less, if any), and seeded random lists of length 2..40.
func testLists(g *Gen, t reflect.Type, poolv []reflect.Value, n int, less func(a, b reflect.Value) bool) [][]reflect.Value {
	var out [][]reflect.Value
	out = append(out, []reflect.Value{})
	for i := 0; i < len(poolv) && i < 3; i++ {
		out = append(out, []reflect.Value{poolv[i]})
	}
	if len(poolv) >= 2 {
		a, b := poolv[len(poolv)-1], poolv[len(poolv)-2]
		out = append(out, []reflect.Value{a, a}, []reflect.Value{a, b, a}, []reflect.Value{a, b, b, a, a}, []reflect.Value{b, a}, []reflect.Value{a, b})
	}
	for len(out) < n {
		k := 2 + g.R.Intn(8)
		if g.R.Intn(6) == 0 {
			k = 10 + g.R.Intn(31)
		}
		l := make([]reflect.Value, k)
		for i := range l {
			l[i] = poolv[g.R.Intn(len(poolv))]
		}
		out = append(out, l)
		if less != nil && len(out) < n {
			s := append([]reflect.Value{}, l...)
			sort.SliceStable(s, func(i, j int) bool { return less(s[i], s[j]) })
			out = append(out, s)
			rv := make([]reflect.Value, len(s))
			for i := range s {
				rv[len(s)-1-i] = s[i]
			}
			out = append(out, rv)
		}
	}
	return out
}

func natLess(a, b reflect.Value) (less, defined bool) {
	switch a.Kind() {
	case reflect.Int, reflect.Int8, reflect.Int16, reflect.Int32, reflect.Int64:
		return a.Int() < b.Int(), true
	case reflect.Uint, reflect.Uint8, reflect.Uint16, reflect.Uint32, reflect.Uint64, reflect.Uintptr:
		return a.Uint() < b.Uint(), true
	case reflect.Float32, reflect.Float64:
		return a.Float() < b.Float(), true
	case reflect.String:
		return a.String() < b.String(), true
	}
	return false, false
}

// ---------------------------------------------------------------------------------------------
// C13: Sort, Keys, Min, Max

func monC13(o *TypeOps, c Config, r *Rep) {
	if o.Keys != nil {
		monKeys(o, c, r)
		return
	}
	if o.Sort == nil && o.Min == nil && o.Max == nil && o.Min2 == nil && o.Max2 == nil {
		r.Res.Skipped = "no ordering helper"
		return
	}
	if _, nat := natLess(reflect.New(o.T).Elem(), reflect.New(o.T).Elem()); o.Compare == nil && !nat {
		r.Res.Skipped = "no derived Compare registered for this element type in this package (dropped as a duplicate of an assignable type)"
		return
	}
	g := NewGen(itemSeed(c.Seed, o.ID))
	poolv := g.Pool(o.T, c.PoolN)
	cmp := func(a, b reflect.Value) int {
		if o.Compare != nil {
			return o.Compare(a.Interface(), b.Interface())
		}
		if l, ok := natLess(a, b); ok {
			if l {
				return -1
			}
			if l2, _ := natLess(b, a); l2 {
				return 1
			}
			return 0
		}
		panic("mon: no order available for " + o.T.String())
	}
	lists := testLists(g, o.T, poolv, tierPick(c, 40, 120), func(a, b reflect.Value) bool { return cmp(a, b) < 0 })
	for li, vals := range lists {
		for _, nilList := range []bool{false, true} {
			if nilList && len(vals) != 0 {
				continue
			}
			class := listClass(vals, nilList)
			in := mkList(o.T, vals, nilList)
			want := canonList(in)
			if o.Sort != nil {
				arg := mkList(o.T, vals, nilList)
				var out reflect.Value
				if pn := try(func() { out = reflect.ValueOf(o.Sort(arg.Interface())) }); pn != "" {
					r.Fail("sort/"+class, "deriveSort panicked: %s\n list=%v", pn, want)
				} else {
					got := canonList(out)
					ok := true
					if multiset(got) != multiset(want) {
						r.Fail("sort/"+class+"/permutation", "result is not a permutation of the input\n in =%v\n out=%v", want, got)
						ok = false
					}
					for i := 0; ok && i+1 < out.Len(); i++ {
						if cmp(out.Index(i), out.Index(i+1)) > 0 {
							r.Fail("sort/"+class+"/order", "result[%d] > result[%d] under derived Compare\n in =%v\n out=%v", i, i+1, want, got)
							ok = false
						}
						if l, def := natLess(out.Index(i+1), out.Index(i)); def && l {
							r.Fail("sort/"+class+"/natural-order", "result[%d] > result[%d] under <\n out=%v", i, i+1, got)
							ok = false
						}
					}
					if ok {
						r.Ok("sort/" + class)
					}
				}
			}
			def := poolv[(li*7+3)%len(poolv)]
			for _, mm := range []struct {
				name string
				f    func(l, d any) any
				sign int
			}{{"min", o.Min, 1}, {"max", o.Max, -1}} {
				if mm.f == nil {
					continue
				}
				arg := mkList(o.T, vals, nilList)
				var res reflect.Value
				if pn := try(func() { res = root(mm.f(arg.Interface(), DeepClone(def).Interface()), o.T) }); pn != "" {
					r.Fail(mm.name+"/"+class, "derive%s panicked: %s\n list=%v", mm.name, pn, want)
					continue
				}
				if len(vals) == 0 {
					if Canon(res) != Canon(def) {
						r.Fail(mm.name+"/"+class+"/default", "empty list: result %s is not the default %s", show(res), show(def))
					} else {
						r.Ok(mm.name + "/" + class + "/default")
					}
					continue
				}
				member := false
				rc := Canon(res)
				for _, w := range want {
					if w == rc {
						member = true
					}
				}
				if !member {
					r.Fail(mm.name+"/"+class+"/member", "result %s is not an element of the list %v", rc, want)
					continue
				}
				bad := false
				for i := 0; i < in.Len(); i++ {
					if cmp(in.Index(i), res)*mm.sign < 0 {
						r.Fail(mm.name+"/"+class+"/extreme", "element %s %s the result %s under derived Compare\n list=%v", want[i], map[int]string{1: "precedes", -1: "follows"}[mm.sign], rc, want)
						bad = true
						break
					}
				}
				if !bad {
					r.Ok(mm.name + "/" + class)
				}
				if canonListChanged(arg, want) {
					r.Fail(mm.name+"/"+class+"/input-modified", "the list was modified")
				}
			}
		}
	}
	// two-value forms over all pool pairs
	for _, mm := range []struct {
		name string
		f    func(a, b any) any
		sign int
	}{{"min2", o.Min2, 1}, {"max2", o.Max2, -1}} {
		if mm.f == nil {
			continue
		}
		for _, a := range poolv {
			for _, b := range poolv {
				var res reflect.Value
				if pn := try(func() { res = root(mm.f(DeepClone(a).Interface(), DeepClone(b).Interface()), o.T) }); pn != "" {
					r.Fail(mm.name, "panicked: %s", pn)
					continue
				}
				rc := Canon(res)
				var other reflect.Value
				switch {
				case rc == Canon(a):
					other = b
				case rc == Canon(b):
					other = a
				default:
					r.Fail(mm.name+"/member", "result %s is neither argument (%s, %s)", rc, show(a), show(b))
					continue
				}
				if cmp(other, res)*mm.sign < 0 {
					r.Fail(mm.name+"/extreme", "the other argument %s %s the result %s", show(other), map[int]string{1: "precedes", -1: "follows"}[mm.sign], rc)
					continue
				}
				r.Ok(mm.name)
			}
		}
	}
}

func tierPick(c Config, q, t int) int {
	if c.Tier == "thorough" {
		return t
	}
	return q
}

func canonListChanged(l reflect.Value, want []string) bool {
	got := canonList(l)
	if len(got) != len(want) {
		return true
	}
	for i := range got {
		if got[i] != want[i] {
			return true
		}
	}
	return false
}

func listClass(vals []reflect.Value, nilList bool) string {
	switch {
	case nilList:
		return "nil"
	case len(vals) == 0:
		return "empty"
	case len(vals) == 1:
		return "singleton"
	}
	seen := map[string]bool{}
	dup := false
	for _, v := range vals {
		c := Canon(v)
		if seen[c] {
			dup = true
		}
		seen[c] = true
	}
	n := "short"
	if len(vals) >= 10 {
		n = "long"
	}
	if dup {
		return n + "-dups"
	}
	return n
}

func monKeys(o *TypeOps, c Config, r *Rep) {
	g := NewGen(itemSeed(c.Seed, o.ID))
	for _, m := range g.Pool(o.T, c.PoolN*2) {
		before := CanonExact(m)
		var out reflect.Value
		if pn := try(func() { out = reflect.ValueOf(o.Keys(m.Interface())) }); pn != "" {
			r.Fail("keys/panic", "deriveKeys panicked: %s", pn)
			continue
		}
		var want []string
		for _, k := range m.MapKeys() {
			want = append(want, Canon(k))
		}
		got := canonList(out)
		class := "keys/n=" + fmt.Sprint(min(len(want), 3))
		if m.IsNil() {
			class = "keys/nil"
		}
		if multiset(got) != multiset(want) {
			r.Fail(class, "keys are not exactly the map's keys\n map =%s\n keys=%v", show(m), got)
		} else {
			r.Ok(class)
		}
		if CanonExact(m) != before {
			r.Fail("keys/input-modified", "the map was modified")
		}
	}
}

// ---------------------------------------------------------------------------------------------
// C14: Contains, Unique, Set, Union, Intersect, Filter, TakeWhile, All, Any

func strHash(s string) uint32 { h := fnv.New32a(); h.Write([]byte(s)); return h.Sum32() }

func monC14(o *TypeOps, c Config, r *Rep) {
	if o.Equal == nil {
		r.Res.Skipped = "no Equal"
		return
	}
	g := NewGen(itemSeed(c.Seed, o.ID))
	poolv := g.Pool(o.T, c.PoolN)
	eq := func(a, b reflect.Value) bool { return o.Equal(a.Interface(), b.Interface()) }
	anyEq := func(l reflect.Value, x reflect.Value) bool {
		for i := 0; i < l.Len(); i++ {
			if eq(l.Index(i), x) {
				return true
			}
		}
		return false
	}
	lists := testLists(g, o.T, poolv, tierPick(c, 26, 60), nil)
	comparable := o.T.Comparable() && pointerFree(o.T)
	for li, vals := range lists {
		for _, nilList := range []bool{false, true} {
			if nilList && len(vals) != 0 {
				continue
			}
			class := listClass(vals, nilList)
			in := mkList(o.T, vals, nilList)
			want := canonList(in)
			// Contains: against every pool value and a fresh copy of a member
			if o.Contains != nil {
				for _, x := range poolv {
					arg := mkList(o.T, vals, nilList)
					var got bool
					if pn := try(func() { got = o.Contains(arg.Interface(), DeepClone(x).Interface()) }); pn != "" {
						r.Fail("contains/"+class, "panicked: %s", pn)
						continue
					}
					if exp := anyEq(in, x); got != exp {
						r.Fail("contains/"+class, "deriveContains=%v but an element Equal to the item exists=%v (reference equality says %v)\n list=%v\n item=%s", got, exp, refAny(in, x), want, show(x))
					} else {
						r.Ok("contains/" + class)
					}
				}
			}
			if o.Unique != nil {
				arg := mkList(o.T, vals, nilList)
				var out reflect.Value
				if pn := try(func() { out = reflect.ValueOf(o.Unique(arg.Interface())) }); pn != "" {
					r.Fail("unique/"+class, "panicked: %s", pn)
				} else {
					got := canonList(out)
					ok := true
					for i := 0; ok && i < out.Len(); i++ {
						for j := i + 1; j < out.Len(); j++ {
							if eq(out.Index(i), out.Index(j)) {
								r.Fail("unique/"+class+"/pairwise", "result[%d] and result[%d] are Equal\n in =%v\n out=%v", i, j, want, got)
								ok = false
								break
							}
						}
					}
					for i := 0; ok && i < in.Len(); i++ {
						if !anyEq(out, in.Index(i)) {
							r.Fail("unique/"+class+"/covers", "input element %s has no Equal element in the result\n in =%v\n out=%v", want[i], want, got)
							ok = false
						}
					}
					for i := 0; ok && i < out.Len(); i++ {
						if !anyEq(in, out.Index(i)) {
							r.Fail("unique/"+class+"/invented", "result element %s is not Equal to any input element", got[i])
							ok = false
						}
					}
					if ok && !comparable {
						// first occurrences in order
						var first []string
						fl := reflect.MakeSlice(reflect.SliceOf(o.T), 0, in.Len())
						for i := 0; i < in.Len(); i++ {
							if !anyEq(fl, in.Index(i)) {
								fl = reflect.Append(fl, in.Index(i))
								first = append(first, want[i])
							}
						}
						if strings.Join(first, "\x00") != strings.Join(got, "\x00") {
							r.Fail("unique/"+class+"/first-occurrences", "result is not the first occurrences in order\n in  =%v\n out =%v\n want=%v", want, got, first)
							ok = false
						}
					}
					if ok {
						r.Ok("unique/" + class)
					}
				}
			}
			if o.Set != nil {
				arg := mkList(o.T, vals, nilList)
				var out reflect.Value
				if pn := try(func() { out = reflect.ValueOf(o.Set(arg.Interface())) }); pn != "" {
					r.Fail("set/"+class, "panicked: %s", pn)
				} else {
					ws := map[string]bool{}
					for _, w := range want {
						ws[w] = true
					}
					gs := map[string]bool{}
					for _, k := range out.MapKeys() {
						gs[Canon(k)] = true
					}
					if !sameSet(ws, gs) || len(gs) != out.Len() {
						r.Fail("set/"+class, "deriveSet keys %v are not the set of list elements %v", sortedSet(gs), sortedSet(ws))
					} else {
						r.Ok("set/" + class)
					}
				}
			}
			// binary helpers against second lists: a seed-rotated one and two with duplicates
			seconds := [][]reflect.Value{lists[(li*5+2)%len(lists)]}
			if len(lists) > 8 {
				seconds = append(seconds, lists[4], lists[7])
			}
			for _, vals2 := range seconds {
				in2 := mkList(o.T, vals2, false)
				want2 := canonList(in2)
				if o.Union != nil {
					a, b := mkList(o.T, vals, nilList), mkList(o.T, vals2, false)
					var out reflect.Value
					if pn := try(func() { out = reflect.ValueOf(o.Union(a.Interface(), b.Interface())) }); pn != "" {
						r.Fail("union/"+class, "panicked: %s", pn)
					} else {
						got := canonList(out)
						ok := true
						if out.Len() < in.Len() || strings.Join(got[:in.Len()], "\x00") != strings.Join(want, "\x00") {
							r.Fail("union/"+class+"/first-list-verbatim", "the result does not start with the first list\n a  =%v\n b  =%v\n out=%v", want, want2, got)
							ok = false
						}
						for i := 0; ok && i < in2.Len(); i++ {
							if !anyEq(out, in2.Index(i)) {
								r.Fail("union/"+class+"/covers-second", "element %s of the second list has no Equal element in the result\n a  =%v\n b  =%v\n out=%v", want2[i], want, want2, got)
								ok = false
							}
						}
						// the tail: items of b, in b's order, none Equal to an element of a
						j := 0
						for i := in.Len(); ok && i < out.Len(); i++ {
							for j < len(want2) && want2[j] != got[i] {
								j++
							}
							if j == len(want2) {
								r.Fail("union/"+class+"/tail-order", "the appended items are not a subsequence of the second list\n a  =%v\n b  =%v\n out=%v", want, want2, got)
								ok = false
								break
							}
							j++
							if anyEq(in, out.Index(i)) {
								r.Fail("union/"+class+"/tail-new", "appended item %s is Equal to an element of the first list\n a  =%v\n out=%v", got[i], want, got)
								ok = false
							}
							for k := in.Len(); ok && k < i; k++ {
								if eq(out.Index(k), out.Index(i)) {
									r.Fail("union/"+class+"/tail-new", "appended items %d and %d are Equal: the second one was not a new item\n a  =%v\n b  =%v\n out=%v", k, i, want, want2, got)
									ok = false
								}
							}
						}
						if ok {
							r.Ok("union/" + class)
						}
					}
				}
				if o.Intersect != nil {
					a, b := mkList(o.T, vals, nilList), mkList(o.T, vals2, false)
					var out reflect.Value
					if pn := try(func() { out = reflect.ValueOf(o.Intersect(a.Interface(), b.Interface())) }); pn != "" {
						r.Fail("intersect/"+class, "panicked: %s", pn)
					} else {
						got := canonList(out)
						ok := true
						// subsequence of a
						j := 0
						for i := 0; ok && i < len(got); i++ {
							for j < len(want) && want[j] != got[i] {
								j++
							}
							if j == len(want) {
								r.Fail("intersect/"+class+"/order", "result is not a subsequence of the first list\n a  =%v\n b  =%v\n out=%v", want, want2, got)
								ok = false
								break
							}
							j++
						}
						for i := 0; ok && i < out.Len(); i++ {
							if !anyEq(in2, out.Index(i)) {
								r.Fail("intersect/"+class+"/not-in-second", "result element %s has no Equal element in the second list\n a  =%v\n b  =%v\n out=%v", got[i], want, want2, got)
								ok = false
							}
						}
						for i := 0; ok && i < in.Len(); i++ {
							if anyEq(in2, in.Index(i)) && !anyEq(out, in.Index(i)) {
								r.Fail("intersect/"+class+"/missing", "element %s is in both lists but not in the result\n a  =%v\n b  =%v\n out=%v", want[i], want, want2, got)
								ok = false
							}
						}
						if ok {
							r.Ok("intersect/" + class)
						}
					}
				}
				if o.UnionMap != nil || o.InterMap != nil {
					mt := reflect.MapOf(o.T, reflect.TypeOf(struct{}{}))
					mk := func(vs []reflect.Value) (reflect.Value, map[string]bool) {
						m := reflect.MakeMap(mt)
						s := map[string]bool{}
						for _, v := range vs {
							m.SetMapIndex(DeepClone(v), reflect.ValueOf(struct{}{}))
							s[Canon(v)] = true
						}
						return m, s
					}
					keys := func(m reflect.Value) map[string]bool {
						s := map[string]bool{}
						for _, k := range m.MapKeys() {
							s[Canon(k)] = true
						}
						return s
					}
					if o.UnionMap != nil {
						a, sa := mk(vals)
						b, sb := mk(vals2)
						var out reflect.Value
						if pn := try(func() { out = reflect.ValueOf(o.UnionMap(a.Interface(), b.Interface())) }); pn != "" {
							r.Fail("unionmap/"+class, "panicked: %s", pn)
						} else {
							exp := map[string]bool{}
							for k := range sa {
								exp[k] = true
							}
							for k := range sb {
								exp[k] = true
							}
							if !sameSet(exp, keys(out)) {
								r.Fail("unionmap/"+class, "result keys %v, want %v", sortedSet(keys(out)), sortedSet(exp))
							} else {
								r.Ok("unionmap/" + class)
							}
						}
					}
					if o.InterMap != nil {
						a, sa := mk(vals)
						b, sb := mk(vals2)
						var out reflect.Value
						if pn := try(func() { out = reflect.ValueOf(o.InterMap(a.Interface(), b.Interface())) }); pn != "" {
							r.Fail("intermap/"+class, "panicked: %s", pn)
						} else {
							exp := map[string]bool{}
							for k := range sa {
								if sb[k] {
									exp[k] = true
								}
							}
							if !sameSet(exp, keys(out)) {
								r.Fail("intermap/"+class, "result keys %v, want %v", sortedSet(keys(out)), sortedSet(exp))
							} else {
								r.Ok("intermap/" + class)
							}
							if !sameSet(keys(a), sa) || !sameSet(keys(b), sb) {
								r.Fail("intermap/"+class+"/input-modified", "an input map was modified")
							}
						}
					}
				}
			} // seconds
			// predicates with a call log
			preds := []struct {
				name string
				mk   func() func(x reflect.Value) bool
			}{
				{"parity", func() func(reflect.Value) bool { return func(x reflect.Value) bool { return strHash(Canon(x))%2 == 0 } }},
				{"mod3", func() func(reflect.Value) bool { return func(x reflect.Value) bool { return strHash(Canon(x))%3 != 0 } }},
				{"always", func() func(reflect.Value) bool { return func(reflect.Value) bool { return true } }},
				{"never", func() func(reflect.Value) bool { return func(reflect.Value) bool { return false } }},
				{"first-two-calls", func() func(reflect.Value) bool {
					n := 0
					return func(reflect.Value) bool { n++; return n <= 2 }
				}},
				{"every-other-call", func() func(reflect.Value) bool {
					n := 0
					return func(reflect.Value) bool { n++; return n%2 == 1 }
				}},
			}
			for _, pd := range preds {
				// reference evaluation with its own predicate instance, element by element in order
				refP := pd.mk()
				verdicts := make([]bool, len(want))
				for i := 0; i < in.Len(); i++ {
					verdicts[i] = refP(in.Index(i))
				}
				runLogged := func(f func(p func(any) bool, l any) any) (out reflect.Value, log []string, pn string) {
					p := pd.mk()
					arg := mkList(o.T, vals, nilList)
					pn = try(func() {
						res := f(func(x any) bool {
							v := root(x, o.T)
							log = append(log, Canon(v))
							return p(v)
						}, arg.Interface())
						out = reflect.ValueOf(res)
					})
					return
				}
				logIs := func(name string, log []string, n int) bool {
					if len(log) != n || strings.Join(log, "\x00") != strings.Join(want[:n], "\x00") {
						r.Fail(name+"/"+class+"/call-log", "predicate %s was called on %v; expected exactly the first %d input elements in order %v", pd.name, log, n, want[:n])
						return false
					}
					return true
				}
				if o.Filter != nil {
					out, log, pn := runLogged(o.Filter)
					if pn != "" {
						r.Fail("filter/"+class, "panicked: %s", pn)
					} else {
						var exp []string
						for i, v := range verdicts {
							if v {
								exp = append(exp, want[i])
							}
						}
						if logIs("filter", log, len(want)) {
							if strings.Join(canonList(out), "\x00") != strings.Join(exp, "\x00") {
								r.Fail("filter/"+class, "predicate %s: result %v, want %v (input %v)", pd.name, canonList(out), exp, want)
							} else {
								r.Ok("filter/" + class)
							}
						}
					}
				}
				firstFalse := len(verdicts)
				firstTrue := len(verdicts)
				for i := len(verdicts) - 1; i >= 0; i-- {
					if !verdicts[i] {
						firstFalse = i
					} else {
						firstTrue = i
					}
				}
				if o.TakeWhile != nil {
					out, log, pn := runLogged(o.TakeWhile)
					if pn != "" {
						r.Fail("takewhile/"+class, "panicked: %s", pn)
					} else if logIs("takewhile", log, min(firstFalse+1, len(want))) {
						if strings.Join(canonList(out), "\x00") != strings.Join(want[:firstFalse], "\x00") {
							r.Fail("takewhile/"+class, "predicate %s: result %v, want %v", pd.name, canonList(out), want[:firstFalse])
						} else {
							r.Ok("takewhile/" + class)
						}
					}
				}
				if o.All != nil {
					out, log, pn := runLogged(func(p func(any) bool, l any) any { return o.All(p, l) })
					if pn != "" {
						r.Fail("all/"+class, "panicked: %s", pn)
					} else if logIs("all", log, min(firstFalse+1, len(want))) {
						if out.Bool() != (firstFalse == len(verdicts)) {
							r.Fail("all/"+class, "predicate %s: deriveAll=%v over verdicts %v", pd.name, out.Bool(), verdicts)
						} else {
							r.Ok("all/" + class)
						}
					}
				}
				if o.Any != nil {
					out, log, pn := runLogged(func(p func(any) bool, l any) any { return o.Any(p, l) })
					if pn != "" {
						r.Fail("any/"+class, "panicked: %s", pn)
					} else if logIs("any", log, min(firstTrue+1, len(want))) {
						if out.Bool() != (firstTrue < len(verdicts)) {
							r.Fail("any/"+class, "predicate %s: deriveAny=%v over verdicts %v", pd.name, out.Bool(), verdicts)
						} else {
							r.Ok("any/" + class)
						}
					}
				}
			}
		}
	}
}

func refAny(l, x reflect.Value) bool {
	for i := 0; i < l.Len(); i++ {
		if RefEqual(l.Index(i), x) {
			return true
		}
	}
	return false
}

func sameSet(a, b map[string]bool) bool {
	if len(a) != len(b) {
		return false
	}
	for k := range a {
		if !b[k] {
			return false
		}
	}
	return true
}

func sortedSet(m map[string]bool) []string {
	var out []string
	for k := range m {
		out = append(out, k)
	}
	sort.Strings(out)
	return out
}

func pointerFree(t reflect.Type) bool {
	switch t.Kind() {
	case reflect.Pointer, reflect.Slice, reflect.Map, reflect.Chan, reflect.Func, reflect.Interface, reflect.UnsafePointer:
		return false
	case reflect.Array:
		return pointerFree(t.Elem())
	case reflect.Struct:
		for i := 0; i < t.NumField(); i++ {
			if !pointerFree(t.Field(i).Type) {
				return false
			}
		}
	}
	return true
}
