package mon

import (
	"fmt"
	"math/rand"
	"os"
	"runtime"
	"sort"
	"strings"
	"sync"
	"sync/atomic"
	"time"
)

// Comb is the glue for one channel combinator emitted by goderive (element type int everywhere).
// Exactly one of the function fields is set.
type Comb struct {
	Name       string
	Fmap       func(in <-chan int) <-chan int
	JoinChanR  func(in <-chan (<-chan int)) <-chan int
	JoinChanB  func(in chan (<-chan int)) <-chan int
	JoinSliceR func(in []<-chan int) <-chan int
	JoinSliceB func(in []chan int) <-chan int
	JoinVar2   func(a, b chan int) <-chan int
	JoinVar3   func(a, b, c chan int) <-chan int
	JoinVar2R  func(a, b <-chan int) <-chan int
	JoinVarN   func(ins []chan int) <-chan int // variadic form with NVar channels
	NVar       int
	Pipeline   func(f func(int) <-chan int, g func(int) <-chan int) func(int) <-chan int
	Dup        func(in <-chan int) (<-chan int, <-chan int)
	DupB       func(in chan int) (<-chan int, <-chan int)
}

// FmapCalls counts applications of the function handed to deriveFmap over a channel; FmapShift is
// what that function adds, so that applying it zero or two times is visible in the item ids.
var FmapCalls atomic.Int64

const FmapShift = 7

var combs []*Comb

// RegComb registers a combinator.
func RegComb(c *Comb) { combs = append(combs, c) }

func init() { mains["C19"] = chanMain }

// Ev is one event of a recorded history (client boundary only).
type Ev struct {
	Call, Ret int64  // logical clock at call and at return
	Kind      string // send | recv | closed (receive that returned ok=false) | close (close of an input)
	Ch        int    // input index (send/close) or output index (recv/closed)
	ID        int    // item id
	Proc      int    // client process (producer / closer / consumer number)
}

var clock int64

func tick() int64 { return atomic.AddInt64(&clock, 1) }

// yield support (instrumented build) ------------------------------------------------------------

var (
	yieldOn    bool
	yieldSeed  uint64
	yieldTrace []int32
	yieldN     int64
	siteCount  [4096]uint32
)

// Y is inserted before every statement of the emitted code in the yield build: depending on
// hash(seed, site, per-site counter) it does nothing, yields the processor or sleeps 10-200 us, and it
// appends the site to a lock-free trace whose hash is the interleaving signature.
func Y(site int) {
	if !yieldOn {
		return
	}
	n := atomic.AddInt64(&yieldN, 1)
	if int(n) <= len(yieldTrace) {
		yieldTrace[n-1] = int32(site)
	}
	c := atomic.AddUint32(&siteCount[site%len(siteCount)], 1)
	h := (yieldSeed ^ uint64(site)*0x9E3779B97F4A7C15 ^ uint64(c)*0xBF58476D1CE4E5B9)
	h ^= h >> 29
	h *= 0x94D049BB133111EB
	h ^= h >> 32
	switch h % 8 {
	case 0, 1, 2:
		runtime.Gosched()
	case 3:
		time.Sleep(time.Duration(10+h%190) * time.Microsecond)
	}
}

func traceSig() uint64 {
	n := int(atomic.LoadInt64(&yieldN))
	if n > len(yieldTrace) {
		n = len(yieldTrace)
	}
	var h uint64 = 1469598103934665603
	for _, s := range yieldTrace[:n] {
		h = (h ^ uint64(uint32(s))) * 1099511628211
	}
	return h
}

// goroutine dumps ---------------------------------------------------------------------------------

type gInfo struct {
	ID      string
	State   string
	Derived bool
}

// derivedGoroutines returns the goroutines that have a frame in derived.gen.go.
// abandonedG: goroutines left blocked in derived code by an execution that was already reported as a
// deadlock (or leak); later executions of the same process must not be charged with them again.
var abandonedG = map[string]bool{}

func abandonDerivedGoroutines() {
	for _, g := range derivedGoroutines() {
		abandonedG[g.ID] = true
	}
}

func derivedGoroutines() []gInfo {
	buf := make([]byte, 1<<20)
	n := runtime.Stack(buf, true)
	var out []gInfo
	for _, blk := range strings.Split(string(buf[:n]), "\n\n") {
		if !strings.Contains(blk, "derived.gen.go") {
			continue
		}
		hd := blk
		if i := strings.IndexByte(hd, '\n'); i >= 0 {
			hd = hd[:i]
		}
		// goroutine 12 [chan send]:
		f := strings.Fields(hd)
		g := gInfo{Derived: true}
		if len(f) >= 2 {
			g.ID = f[1]
		}
		if i := strings.IndexByte(hd, '['); i >= 0 {
			g.State = strings.TrimSuffix(strings.TrimSuffix(hd[i+1:], ":"), "]")
		}
		if abandonedG[g.ID] {
			continue
		}
		out = append(out, g)
	}
	return out
}

func blockedState(s string) bool {
	for _, p := range []string{"chan send", "chan receive", "select", "semacquire", "sync.WaitGroup.Wait", "sync.Mutex.Lock", "sync.Cond.Wait"} {
		if strings.HasPrefix(s, p) {
			return true
		}
	}
	return false
}

// quiesce waits until no goroutine runs derived code any more. It returns "" when that happened,
// "leak: ..." when the same goroutines sit in a blocking state on two samples, "inconclusive" otherwise.
func quiesce() string {
	for i := 0; i < 400; i++ {
		if len(derivedGoroutines()) == 0 {
			return ""
		}
		if i < 200 {
			runtime.Gosched()
		} else {
			time.Sleep(time.Millisecond)
		}
	}
	a := derivedGoroutines()
	time.Sleep(100 * time.Millisecond)
	for i := 0; i < 1000; i++ {
		runtime.Gosched()
	}
	b := derivedGoroutines()
	if len(b) == 0 {
		return ""
	}
	ids := map[string]string{}
	for _, g := range a {
		ids[g.ID] = g.State
	}
	var stuck []string
	for _, g := range b {
		if _, ok := ids[g.ID]; ok && blockedState(g.State) {
			stuck = append(stuck, "goroutine "+g.ID+" ["+g.State+"]")
		}
	}
	if len(stuck) > 0 {
		return "leak: " + strings.Join(stuck, ", ")
	}
	return "inconclusive"
}

// scenario ----------------------------------------------------------------------------------------

// Scenario is one configuration of producers, consumers and capacities.
type Scenario struct {
	Comb       string
	NIn        int
	Items      []int // items per input
	Cap        int   // capacity of the input channels
	CarrierCap int   // capacity of the chan-of-chan carrier
	Producers  int   // producers per input
	CloseOrder []int // order in which inputs are closed
	Slow       int   // 0 fast consumer, 1 yielding consumer, 2 sleeping consumer
	Procs      int   // GOMAXPROCS
	PreClosed  bool  // inputs without items are closed before the combinator is started
	// Rendezvous (Pipeline): the second-stage producers g(b) send their first item only after g has been
	// called for every b: they make progress only if all second-stage streams are open at the same time
	Rendezvous bool
	// EarlyProducers: producers (and closers) run BEFORE the combinator is called, so buffered inputs are
	// already full and producers are parked on their next send when the derived function starts
	EarlyProducers bool
	// TwoRuns (Pipeline): the composed pipeline is invoked twice (inputs 0 and 1); the second output is
	// consumed only after the first one was closed
	TwoRuns bool
	Seed    int64
}

func (s Scenario) class() string {
	n := 0
	for _, k := range s.Items {
		n += k
	}
	items := "0"
	switch {
	case n > 8:
		items = "many"
	case n > 0:
		items = "few"
	}
	return fmt.Sprintf("in=%d/items=%s/cap=%d/prod=%d/slow=%d/procs=%d/preclosed=%v", s.NIn, items, s.Cap, s.Producers, s.Slow, s.Procs, s.PreClosed)
}

type scenResult struct {
	hist    []Ev
	viol    []string
	incon   string
	outs    int
	yieldSg uint64
}

func perturb(r *rand.Rand) {
	switch r.Intn(6) {
	case 0, 1:
		runtime.Gosched()
	case 2:
		for i := 0; i < r.Intn(200); i++ {
			_ = i
		}
	case 3:
		if r.Intn(4) == 0 {
			time.Sleep(time.Duration(1+r.Intn(40)) * time.Microsecond)
		}
	}
}

func itemID(in, prod, k int) int { return in*1000000 + prod*10000 + k }

func runScenario(cb *Comb, sc Scenario) (res scenResult) {
	runtime.GOMAXPROCS(sc.Procs)
	FmapCalls.Store(0)
	atomic.StoreInt64(&yieldN, 0)
	yieldSeed = uint64(sc.Seed)*0x9E3779B97F4A7C15 + 12345
	var mu sync.Mutex
	var hist []Ev
	record := func(evs []Ev) { mu.Lock(); hist = append(hist, evs...); mu.Unlock() }

	ins := make([]chan int, sc.NIn)
	for i := range ins {
		ins[i] = make(chan int, sc.Cap)
	}
	// pre-closed empty inputs
	preclosed := map[int]bool{}
	if sc.PreClosed {
		for i, n := range sc.Items {
			if i >= len(ins) {
				break
			}
			if n == 0 {
				t0 := tick()
				close(ins[i])
				record([]Ev{{Call: t0, Ret: tick(), Kind: "close", Ch: i, Proc: 900 + i}})
				preclosed[i] = true
			}
		}
	}
	var outs []<-chan int
	pipelineWant := map[int]int{} // item id -> index of the output it must appear on
	var clientWG sync.WaitGroup   // producers, closers, carrier
	startClients := func() {
		// producers
		prodDone := make([]*sync.WaitGroup, sc.NIn)
		for i := range ins {
			prodDone[i] = &sync.WaitGroup{}
			if preclosed[i] {
				continue
			}
			for p := 0; p < sc.Producers; p++ {
				prodDone[i].Add(1)
				clientWG.Add(1)
				go func(i, p int) {
					defer clientWG.Done()
					defer prodDone[i].Done()
					r := rand.New(rand.NewSource(sc.Seed*131 + int64(i*17+p)))
					var evs []Ev
					for k := p; k < sc.Items[i]; k += sc.Producers {
						perturb(r)
						id := itemID(i, p, k)
						t0 := tick()
						ins[i] <- id
						evs = append(evs, Ev{Call: t0, Ret: tick(), Kind: "send", Ch: i, ID: id, Proc: i*10 + p})
					}
					record(evs)
				}(i, p)
			}
		}
		// closers, sequenced by tokens in CloseOrder
		prev := make(chan struct{})
		close(prev)
		for _, i := range sc.CloseOrder {
			if preclosed[i] {
				continue
			}
			next := make(chan struct{})
			clientWG.Add(1)
			go func(i int, prev, next chan struct{}) {
				defer clientWG.Done()
				prodDone[i].Wait()
				<-prev
				t0 := tick()
				close(ins[i])
				record([]Ev{{Call: t0, Ret: tick(), Kind: "close", Ch: i, Proc: 900 + i}})
				close(next)
			}(i, prev, next)
			prev = next
		}
	}
	carrier := func(send func(c <-chan int), closeOuter func()) {
		clientWG.Add(1)
		go func() {
			defer clientWG.Done()
			r := rand.New(rand.NewSource(sc.Seed * 977))
			for i := range ins {
				perturb(r)
				send(ins[i])
			}
			closeOuter()
		}()
	}
	invoke := func() {
		switch {
		case cb.Fmap != nil:
			outs = []<-chan int{cb.Fmap(ins[0])}
		case cb.Dup != nil:
			a, b := cb.Dup(ins[0])
			outs = []<-chan int{a, b}
		case cb.DupB != nil:
			a, b := cb.DupB(ins[0])
			outs = []<-chan int{a, b}
		case cb.JoinChanR != nil:
			outer := make(chan (<-chan int), sc.CarrierCap)
			outs = []<-chan int{cb.JoinChanR(outer)}
			carrier(func(c <-chan int) { outer <- c }, func() { close(outer) })
		case cb.JoinChanB != nil:
			outer := make(chan (<-chan int), sc.CarrierCap)
			outs = []<-chan int{cb.JoinChanB(outer)}
			carrier(func(c <-chan int) { outer <- c }, func() { close(outer) })
		case cb.JoinSliceR != nil:
			rs := make([]<-chan int, len(ins))
			for i := range ins {
				rs[i] = ins[i]
			}
			outs = []<-chan int{cb.JoinSliceR(rs)}
		case cb.JoinSliceB != nil:
			outs = []<-chan int{cb.JoinSliceB(ins)}
		case cb.JoinVar2 != nil:
			outs = []<-chan int{cb.JoinVar2(ins[0], ins[1])}
		case cb.JoinVar2R != nil:
			outs = []<-chan int{cb.JoinVar2R(ins[0], ins[1])}
		case cb.JoinVar3 != nil:
			outs = []<-chan int{cb.JoinVar3(ins[0], ins[1], ins[2])}
		case cb.JoinVarN != nil:
			outs = []<-chan int{cb.JoinVarN(ins)}
		case cb.Pipeline != nil:
			// f(a) streams the items of input 0 (fed by the producers); g(b) streams Items[1] items per b
			per := 0
			if len(sc.Items) > 1 {
				per = sc.Items[1]
			}
			f := func(a int) <-chan int {
				if a == 8 {
					return ins[1]
				}
				return ins[0]
			}
			var gCalled int32
			allCalled := make(chan struct{})
			if !sc.Rendezvous || sc.Items[0] == 0 {
				close(allCalled)
			}
			g := func(b int) <-chan int {
				c := make(chan int, sc.Cap)
				if sc.Rendezvous && int(atomic.AddInt32(&gCalled, 1)) == sc.Items[0] {
					close(allCalled)
				}
				clientWG.Add(1)
				go func() {
					defer clientWG.Done()
					r := rand.New(rand.NewSource(sc.Seed*313 + int64(b)))
					var evs []Ev
					<-allCalled
					for k := 0; k < per; k++ {
						perturb(r)
						id := b*100 + k
						t0 := tick()
						c <- id
						evs = append(evs, Ev{Call: t0, Ret: tick(), Kind: "send", Ch: 1000 + b, ID: id, Proc: 500 + b%400})
					}
					t0 := tick()
					close(c)
					evs = append(evs, Ev{Call: t0, Ret: tick(), Kind: "close", Ch: 1000 + b, Proc: 500 + b%400})
					record(evs)
				}()
				return c
			}
			for i := range ins {
				for p := 0; p < sc.Producers; p++ {
					for k := p; k < sc.Items[i]; k += sc.Producers {
						for j := 0; j < per; j++ {
							pipelineWant[itemID(i, p, k)*100+j] = i
						}
					}
				}
			}
			composed := cb.Pipeline(f, g)
			outs = []<-chan int{composed(7)}
			if sc.TwoRuns {
				outs = append(outs, composed(8))
			}
		}
	}
	if sc.EarlyProducers {
		startClients()
		// let the producers get ahead: buffers full (or every producer parked on an unbuffered send)
		for spin := 0; spin < 300; spin++ {
			full := true
			for i := range ins {
				if !preclosed[i] && len(ins[i]) < cap(ins[i]) && len(ins[i]) < sc.Items[i] {
					full = false
				}
			}
			if full && spin > 20 {
				break
			}
			runtime.Gosched()
		}
	}
	// the derived function is called on a goroutine of its own: a call that never returns is a verdict,
	// not a hang of the monitor
	invoked := make(chan struct{})
	var invokePanic any
	go func() {
		defer close(invoked)
		defer func() { invokePanic = recover() }()
		invoke()
	}()
	select {
	case <-invoked:
		if invokePanic != nil {
			panic(invokePanic)
		}
	case <-time.After(10 * time.Second):
		a := derivedGoroutines()
		time.Sleep(300 * time.Millisecond)
		b := derivedGoroutines()
		ida := map[string]bool{}
		for _, g := range a {
			ida[g.ID] = true
		}
		all := len(b) > 0
		var st []string
		for _, g := range b {
			st = append(st, "goroutine "+g.ID+" ["+g.State+"]")
			if !ida[g.ID] || !blockedState(g.State) {
				all = false
			}
		}
		if all {
			res.viol = append(res.viol, fmt.Sprintf("deadlock: the call of the derived function did not return; goroutines in derived code: %v", st))
		} else {
			res.incon = "watchdog fired while calling the derived function, but its goroutines are not provably blocked: " + strings.Join(st, ", ")
		}
		mu.Lock()
		res.hist = append([]Ev{}, hist...)
		mu.Unlock()
		return res
	}
	if !sc.EarlyProducers {
		startClients()
	}
	res.outs = len(outs)
	// consumers
	done := make(chan struct{})
	firstDone := make(chan struct{})
	var cwg sync.WaitGroup
	for oi, o := range outs {
		cwg.Add(1)
		go func(oi int, o <-chan int) {
			defer cwg.Done()
			if oi == 0 {
				defer close(firstDone)
			}
			if sc.TwoRuns && oi == 1 {
				<-firstDone
			}
			r := rand.New(rand.NewSource(sc.Seed*71 + int64(oi)))
			var evs []Ev
			for {
				switch sc.Slow {
				case 1:
					perturb(r)
				case 2:
					perturb(r)
					if r.Intn(3) == 0 {
						time.Sleep(time.Duration(5+r.Intn(60)) * time.Microsecond)
					}
				}
				t0 := tick()
				v, ok := <-o
				if !ok {
					evs = append(evs, Ev{Call: t0, Ret: tick(), Kind: "closed", Ch: oi, Proc: 800 + oi})
					break
				}
				if cb.Fmap != nil {
					v -= FmapShift
				}
				evs = append(evs, Ev{Call: t0, Ret: tick(), Kind: "recv", Ch: oi, ID: v, Proc: 800 + oi})
			}
			record(evs)
		}(oi, o)
	}
	go func() { cwg.Wait(); close(done) }()
	select {
	case <-done:
	case <-time.After(10 * time.Second):
		// bounded progress instead of liveness: decide on the goroutine dump, two samples
		a := derivedGoroutines()
		time.Sleep(300 * time.Millisecond)
		b := derivedGoroutines()
		allBlocked := len(b) > 0
		ida := map[string]bool{}
		for _, g := range a {
			ida[g.ID] = true
		}
		var st []string
		for _, g := range b {
			st = append(st, "goroutine "+g.ID+" ["+g.State+"]")
			if !ida[g.ID] || !blockedState(g.State) {
				allBlocked = false
			}
		}
		if allBlocked || len(b) == 0 {
			res.viol = append(res.viol, fmt.Sprintf("deadlock: consumers keep receiving but no output was closed; goroutines in derived code: %v", st))
		} else {
			res.incon = "watchdog fired but derived goroutines are still runnable: " + strings.Join(st, ", ")
		}
		mu.Lock()
		res.hist = append([]Ev{}, hist...)
		mu.Unlock()
		return res
	}
	clientWG.Wait()
	res.yieldSg = traceSig()
	if q := quiesce(); strings.HasPrefix(q, "leak") {
		res.viol = append(res.viol, "goroutine "+q+" after every output was closed")
	} else if q == "inconclusive" {
		res.incon = "goroutines in derived code did not settle, but are not blocked"
	}
	mu.Lock()
	res.hist = append([]Ev{}, hist...)
	mu.Unlock()
	res.viol = append(res.viol, checkHistory(cb, sc, res.hist, len(outs), pipelineWant)...)
	return res
}

// checkHistory runs the sequence oracles: conservation / exactly-once, order, close.
func checkHistory(cb *Comb, sc Scenario, hist []Ev, nouts int, pipelineWant map[int]int) []string {
	var viol []string
	sent := map[int]bool{}
	var lastCloseCall int64
	closedIns := 0
	for _, e := range hist {
		switch e.Kind {
		case "send":
			if e.Ch < 1000 || cb.Pipeline == nil {
				sent[e.ID] = true
			}
		case "close":
			if e.Ch < 1000 {
				closedIns++
				if e.Call > lastCloseCall {
					lastCloseCall = e.Call
				}
			}
		}
	}
	want := sent
	if cb.Fmap != nil {
		// the mapped function adds FmapShift (taken off again where the receive is recorded) and must
		// have been applied exactly once per item
		if n := FmapCalls.Load(); n != int64(len(sent)) {
			viol = append(viol, fmt.Sprintf("fmap: the mapped function was applied %d times for %d items", n, len(sent)))
		}
	}
	for o := 0; o < nouts; o++ {
		if cb.Pipeline != nil {
			want = map[int]bool{}
			for id, on := range pipelineWant {
				if on == o {
					want[id] = true
				}
			}
		}
		var seq []Ev
		var closedEv *Ev
		nclosed := 0
		for i := range hist {
			e := hist[i]
			if e.Ch != o {
				continue
			}
			if e.Kind == "recv" {
				seq = append(seq, e)
			} else if e.Kind == "closed" {
				nclosed++
				closedEv = &hist[i]
			}
		}
		sort.Slice(seq, func(i, j int) bool { return seq[i].Call < seq[j].Call })
		got := map[int]int{}
		for _, e := range seq {
			got[e.ID]++
		}
		for id := range want {
			if got[id] == 0 {
				viol = append(viol, fmt.Sprintf("lost item: %d was sent but never received on output %d", id, o))
				break
			}
		}
		for id, n := range got {
			if n > 1 {
				viol = append(viol, fmt.Sprintf("duplicated item: %d received %d times on output %d", id, n, o))
				break
			}
			if !want[id] {
				viol = append(viol, fmt.Sprintf("spurious item: %d received on output %d was never sent", id, o))
				break
			}
		}
		// order: per (input, producer) increasing; for pipeline per inner channel (id/100)
		last := map[int]int{}
		for _, e := range seq {
			key := e.ID / 10000
			if cb.Pipeline != nil {
				key = e.ID / 100
			}
			if prev, ok := last[key]; ok && e.ID <= prev {
				viol = append(viol, fmt.Sprintf("order violated on output %d: %d received after %d (same input channel and producer)", o, e.ID, prev))
				break
			}
			last[key] = e.ID
		}
		if nclosed != 1 {
			viol = append(viol, fmt.Sprintf("output %d: close observed %d times", o, nclosed))
		} else {
			for _, e := range seq {
				if e.Call > closedEv.Call {
					viol = append(viol, fmt.Sprintf("output %d: item %d received after the output was closed", o, e.ID))
					break
				}
			}
			if closedIns == sc.NIn && cb.Pipeline == nil && closedEv.Ret < lastCloseCall {
				viol = append(viol, fmt.Sprintf("output %d was observed closed (t=%d) before the last input was closed (close called at t=%d)", o, closedEv.Ret, lastCloseCall))
			}
		}
	}
	return viol
}

// main ---------------------------------------------------------------------------------------------

func scenariosFor(cb *Comb, seed int64, n int) []Scenario {
	r := rand.New(rand.NewSource(seed ^ hashOf(cb.Name)))
	var out []Scenario
	for len(out) < n {
		sc := Scenario{Comb: cb.Name, Seed: r.Int63()}
		switch {
		case cb.Fmap != nil, cb.Dup != nil, cb.DupB != nil:
			sc.NIn = 1
		case cb.JoinVar2 != nil, cb.JoinVar2R != nil:
			sc.NIn = 2
		case cb.JoinVar3 != nil:
			sc.NIn = 3
		case cb.JoinVarN != nil:
			sc.NIn = cb.NVar
		case cb.Pipeline != nil:
			sc.NIn = 1
		default:
			sc.NIn = 1 + r.Intn(4)
			if r.Intn(10) == 0 {
				sc.NIn = 0
			}
		}
		for i := 0; i < sc.NIn; i++ {
			sc.Items = append(sc.Items, r.Intn(6))
		}
		if cb.Pipeline != nil {
			sc.Items = []int{r.Intn(5), r.Intn(4)}
			if len(out)%4 == 3 {
				sc.Items = []int{2 + r.Intn(3), 1 + r.Intn(3)}
				sc.Rendezvous = true
			}
			if len(out)%5 == 1 {
				sc.NIn, sc.TwoRuns, sc.Rendezvous = 2, true, false
				sc.Items = []int{1 + r.Intn(3), 1 + r.Intn(3)}
			}
		}
		sc.Cap = r.Intn(3)
		sc.CarrierCap = r.Intn(3)
		sc.Producers = 1 + r.Intn(3)
		if (cb.Fmap != nil || cb.Dup != nil || cb.DupB != nil) && r.Intn(2) == 0 {
			sc.Producers = 1
		}
		sc.CloseOrder = r.Perm(sc.NIn)
		sc.Slow = r.Intn(3)
		sc.Procs = []int{1, 2, 4, 16}[r.Intn(4)]
		sc.PreClosed = r.Intn(4) == 0
		sc.EarlyProducers = len(out)%3 == 2
		if r.Intn(12) == 0 && cb.Pipeline == nil && sc.NIn > 0 {
			// a deeper configuration: many items
			for i := range sc.Items {
				sc.Items[i] = 10 + r.Intn(30)
			}
		}
		out = append(out, sc)
	}
	return out
}

func chanMain(c Config, emit func(*Rep)) {
	yieldOn = os.Getenv("VERIF_YIELD") == "1"
	yieldTrace = make([]int32, 1<<16)
	nscen, reps := 60, 20
	if c.Tier == "thorough" {
		nscen, reps = 240, 60
	}
	if v := os.Getenv("VERIF_SCEN"); v != "" {
		fmt.Sscan(v, &nscen)
	}
	if v := os.Getenv("VERIF_REPS"); v != "" {
		fmt.Sscan(v, &reps)
	}
	sort.SliceStable(combs, func(i, j int) bool { return combs[i].Name < combs[j].Name })
	for _, cb := range combs {
		if c.Only != nil && !c.Only[cb.Name] {
			continue
		}
		r := newRep(cb.Name, c.Prop, cb.Name)
		sigs := map[uint64]bool{}
		var samples [][]Ev
		ops := int64(0)
		stuck := 0
	scenarios:
		for si, sc := range scenariosFor(cb, c.Seed, nscen) {
			for rep := 0; rep < reps; rep++ {
				if stuck >= 3 {
					// every further scenario may wait for the watchdog again: three witnesses are enough
					r.Res.Classes["skipped-after-repeated-deadlock"]++
					break scenarios
				}
				sc.Seed = sc.Seed*31 + int64(rep)
				Progress(fmt.Sprintf("%s scenario=%d rep=%d %+v", cb.Name, si, rep, sc))
				res := runScenario(cb, sc)
				ops += int64(len(res.hist))
				if yieldOn {
					sigs[res.yieldSg] = true
				}
				cl := sc.class()
				if res.incon != "" {
					r.Res.Classes["inconclusive"]++
					continue
				}
				if len(res.viol) > 0 {
					for _, v := range res.viol {
						if strings.HasPrefix(v, "deadlock") || strings.HasPrefix(v, "goroutine leak") {
							stuck++
							abandonDerivedGoroutines()
						}
						r.Fail(strings.SplitN(v, ":", 2)[0], "%s\n scenario: %+v\n history: %s", v, sc, fmtHist(res.hist))
					}
					continue
				}
				r.Ok(cl)
				if len(samples) < 24 && len(res.hist) > 0 && len(res.hist) <= 60 && rep%5 == 0 {
					samples = append(samples, res.hist)
				}
			}
		}
		runtime.GOMAXPROCS(runtime.NumCPU())
		r.Res.Extra = map[string]any{"histories": samples, "events": ops, "interleaving_signatures": len(sigs)}
		emit(r)
	}
	Progress("")
}

func fmtHist(h []Ev) string {
	sort.Slice(h, func(i, j int) bool { return h[i].Call < h[j].Call })
	var sb strings.Builder
	for i, e := range h {
		if i > 80 {
			sb.WriteString(" …")
			break
		}
		fmt.Fprintf(&sb, " [%d-%d p%d %s ch%d %d]", e.Call, e.Ret, e.Proc, e.Kind, e.Ch, e.ID)
	}
	return sb.String()
}
