package mon

import (
	"reflect"
)

var boolType = reflect.TypeOf(true)
var intType = reflect.TypeOf(int(0))

// userMethod finds a method `name(x P) R` declared on t or *t with exactly one parameter and one
// result of type res. It returns the bound-method caller: call(recvAddr, arg) where both are
// addressable values of type t.
func userMethod(t reflect.Type, name string, res reflect.Type) (func(a, b reflect.Value) reflect.Value, bool) {
	if t.Name() == "" || t.Kind() == reflect.Pointer || t.Kind() == reflect.Interface {
		return nil, false
	}
	pt := reflect.PointerTo(t)
	m, ok := pt.MethodByName(name)
	if !ok {
		return nil, false
	}
	mt := m.Type // func(recv *T, x P) R
	if mt.NumIn() != 2 || mt.NumOut() != 1 || mt.Out(0) != res {
		return nil, false
	}
	p := mt.In(1)
	_, onValue := t.MethodByName(name)
	return func(a, b reflect.Value) reflect.Value {
		var recv reflect.Value
		if onValue {
			recv = a
		} else {
			recv = a.Addr()
		}
		var arg reflect.Value
		switch {
		case p == t:
			arg = b
		case p == pt:
			arg = b.Addr()
		case p.Kind() == reflect.Interface:
			arg = b.Addr()
		default:
			arg = b.Addr()
		}
		return recv.MethodByName(name).Call([]reflect.Value{arg})[0]
	}, true
}

// HasUserEqual reports whether component type t declares an Equal method of the recognised shape.
func HasUserEqual(t reflect.Type) bool { _, ok := userMethod(t, "Equal", boolType); return ok }

// HasUserCompare reports whether component type t declares a Compare method of the recognised shape.
func HasUserCompare(t reflect.Type) bool { _, ok := userMethod(t, "Compare", intType); return ok }

// RefEqual is the structural-equality reference of property C02: same nil-ness at every pointer,
// slice and map, same lengths and key sets, equal leaves (Go ==) and equal unexported fields,
// irrespective of pointer identity, capacity or insertion order. At a *component* position whose
// named type (or the pointee of a pointer component) declares its own Equal method, the answer is
// that method's. The top-level position never defers to a method.
func RefEqual(a, b reflect.Value) bool {
	return refEq(addressable(a), addressable(b), true, 0)
}

func refEq(a, b reflect.Value, top bool, depth int) bool {
	if depth > 300 {
		panic("mon.RefEqual: value too deep (cycle?)")
	}
	t := a.Type()
	if !top {
		if call, ok := userMethod(t, "Equal", boolType); ok {
			return call(a, b).Bool()
		}
		if t.Kind() == reflect.Pointer {
			if call, ok := userMethod(t.Elem(), "Equal", boolType); ok {
				// pointer component of a type with its own Equal: if the method accepts a pointer (or an
				// interface) it also decides nil-ness; with a value parameter nil-ness is structural.
				m, _ := reflect.PointerTo(t.Elem()).MethodByName("Equal")
				p := m.Type.In(1)
				if p.Kind() == reflect.Pointer || p.Kind() == reflect.Interface {
					return a.MethodByName("Equal").Call([]reflect.Value{b})[0].Bool()
				}
				if a.IsNil() || b.IsNil() {
					return a.IsNil() && b.IsNil()
				}
				return call(clean(a.Elem()), clean(b.Elem())).Bool()
			}
		}
	}
	switch a.Kind() {
	case reflect.Bool:
		return a.Bool() == b.Bool()
	case reflect.Int, reflect.Int8, reflect.Int16, reflect.Int32, reflect.Int64:
		return a.Int() == b.Int()
	case reflect.Uint, reflect.Uint8, reflect.Uint16, reflect.Uint32, reflect.Uint64, reflect.Uintptr:
		return a.Uint() == b.Uint()
	case reflect.Float32, reflect.Float64:
		return a.Float() == b.Float()
	case reflect.Complex64, reflect.Complex128:
		return a.Complex() == b.Complex()
	case reflect.String:
		return a.String() == b.String()
	case reflect.Pointer:
		if a.IsNil() || b.IsNil() {
			return a.IsNil() && b.IsNil()
		}
		// a top-level pointer is "the value itself" (deriveEqual(this, that *T) is what T's own Equal
		// method is implemented with), so the pointee is not a component position
		return refEq(clean(a.Elem()), clean(b.Elem()), top, depth+1)
	case reflect.Slice:
		if a.IsNil() || b.IsNil() {
			return a.IsNil() && b.IsNil()
		}
		if a.Len() != b.Len() {
			return false
		}
		for i := 0; i < a.Len(); i++ {
			if !refEq(clean(a.Index(i)), clean(b.Index(i)), false, depth+1) {
				return false
			}
		}
		return true
	case reflect.Array:
		for i := 0; i < a.Len(); i++ {
			if !refEq(clean(a.Index(i)), clean(b.Index(i)), false, depth+1) {
				return false
			}
		}
		return true
	case reflect.Map:
		if a.IsNil() || b.IsNil() {
			return a.IsNil() && b.IsNil()
		}
		if a.Len() != b.Len() {
			return false
		}
		if keyHasPointer(t.Key()) {
			// keys holding pointers: Go's key equality is identity, a deep copy has fresh keys. Structural
			// equality of such maps is equality of their canonical encodings (entries sorted by encoded key)
			return CanonOf(a.Interface()) == CanonOf(b.Interface())
		}
		it := a.MapRange()
		for it.Next() {
			bv := b.MapIndex(it.Key())
			if !bv.IsValid() {
				return false
			}
			if !refEq(addressable(it.Value()), addressable(bv), false, depth+1) {
				return false
			}
		}
		return true
	case reflect.Struct:
		for i := 0; i < a.NumField(); i++ {
			if t.Field(i).Name == "_" {
				continue // blank fields are not part of a struct's value (== ignores them too)
			}
			if !refEq(field(a, i), field(b, i), false, depth+1) {
				return false
			}
		}
		return true
	case reflect.Interface:
		if a.IsNil() || b.IsNil() {
			return a.IsNil() && b.IsNil()
		}
		if a.Elem().Type() != b.Elem().Type() {
			return false
		}
		return refEq(addressable(a.Elem()), addressable(b.Elem()), false, depth+1)
	}
	panic("mon.RefEqual: unsupported kind " + a.Kind().String())
}

// MethodGoverned reports whether the type contains, at some component position, a type with a
// user Equal or Compare method (then single-leaf mutations below it have no structural meaning).
func MethodGoverned(t reflect.Type) bool { return methodGoverned(t, true, map[reflect.Type]bool{}) }

func methodGoverned(t reflect.Type, top bool, seen map[reflect.Type]bool) bool {
	if seen[t] {
		return false
	}
	seen[t] = true
	if !top {
		if HasUserEqual(t) || HasUserCompare(t) {
			return true
		}
	}
	switch t.Kind() {
	case reflect.Pointer:
		// *T at top level is "the value itself" for goderive's idiom (deriveEqual(this, that *T));
		// the pointee is then not a component.
		return methodGoverned(t.Elem(), top, seen)
	case reflect.Slice, reflect.Array:
		return methodGoverned(t.Elem(), false, seen)
	case reflect.Map:
		return methodGoverned(t.Key(), false, seen) || methodGoverned(t.Elem(), false, seen)
	case reflect.Struct:
		for i := 0; i < t.NumField(); i++ {
			if methodGoverned(t.Field(i).Type, false, seen) {
				return true
			}
		}
	}
	return false
}

// keyHasPointer reports whether values of a (comparable) map key type can hold pointers.
func keyHasPointer(t reflect.Type) bool {
	switch t.Kind() {
	case reflect.Pointer, reflect.Interface, reflect.Chan, reflect.UnsafePointer:
		return true
	case reflect.Array:
		return keyHasPointer(t.Elem())
	case reflect.Struct:
		for i := 0; i < t.NumField(); i++ {
			if keyHasPointer(t.Field(i).Type) {
				return true
			}
		}
	}
	return false
}
