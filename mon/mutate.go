package mon

import (
	"fmt"
	"math"
	"reflect"
	"strings"
)

// Mutant is a fresh deep copy of a value with exactly one position changed.
type Mutant struct {
	V     reflect.Value
	Class string // leaf-bool, leaf-int, leaf-float, leaf-complex-re, leaf-complex-im, leaf-string, nil-ptr, nil-slice, nil-map, len-slice, key-add, key-del
	Path  string
	// Dir is the natural order of the mutant relative to the original where the property defines
	// one (single leaf, single nil-ness): +1 mutant is greater, -1 smaller, 0 not defined.
	Dir int
	// InMapKey: the changed position is inside a map key (laws only, no direction).
	InMapKey bool
	// Governed: the changed position lies below a component whose type has a user Equal/Compare
	// method (that method decides, not structure).
	Governed bool
}

type mutWalk struct {
	target    int
	ctr       int
	done      bool
	out       *Mutant
	countOnly bool
}

// CountPositions returns the number of mutable positions of v.
func CountPositions(v reflect.Value) int {
	w := &mutWalk{target: -1, countOnly: true}
	c := DeepClone(v)
	w.walk(c, "", false, false, true, 0)
	return w.ctr
}

// Mutants returns up to max single-position mutants of v (evenly sampled over positions).
func Mutants(v reflect.Value, max int) []Mutant {
	n := CountPositions(v)
	if n == 0 {
		return nil
	}
	step := 1
	if max > 0 && n > max {
		step = (n + max - 1) / max
	}
	var out []Mutant
	for i := 0; i < n; i += step {
		c := DeepClone(v)
		w := &mutWalk{target: i, out: &Mutant{}}
		w.walk(c, "", false, false, true, 0)
		if w.done {
			w.out.V = c
			out = append(out, *w.out)
		}
	}
	return out
}

func (w *mutWalk) hit() bool {
	h := w.ctr == w.target
	w.ctr++
	return h && !w.countOnly
}

func (w *mutWalk) set(class, path string, dir int, inKey, gov bool) {
	w.done = true
	w.out.Class, w.out.Path, w.out.InMapKey, w.out.Governed = class, path, inKey, gov
	if inKey || gov {
		dir = 0
	}
	w.out.Dir = dir
}

func (w *mutWalk) walk(v reflect.Value, path string, inKey, gov, top bool, depth int) {
	if w.done || depth > 300 {
		return
	}
	t := v.Type()
	if !top && (HasUserEqual(t) || HasUserCompare(t)) {
		gov = true
	}
	switch v.Kind() {
	case reflect.Bool:
		if w.hit() {
			d := 1
			if v.Bool() {
				d = -1
			}
			v.SetBool(!v.Bool())
			w.set("leaf-bool", path, d, inKey, gov)
		}
	case reflect.Int, reflect.Int8, reflect.Int16, reflect.Int32, reflect.Int64:
		if w.hit() {
			x := v.Int()
			if !v.OverflowInt(x+1) && x != math.MaxInt64 {
				v.SetInt(x + 1)
				w.set("leaf-int", path, 1, inKey, gov)
			} else {
				v.SetInt(x - 1)
				w.set("leaf-int", path, -1, inKey, gov)
			}
			return
		}
		if w.hit() {
			// flip a high bit: a truncating or narrowing comparison misses this one
			x := v.Int()
			y := x ^ (int64(1) << (v.Type().Bits() - 2))
			v.SetInt(y)
			d := 1
			if y < x {
				d = -1
			}
			w.set("leaf-int-high", path, d, inKey, gov)
		}
	case reflect.Uint, reflect.Uint8, reflect.Uint16, reflect.Uint32, reflect.Uint64, reflect.Uintptr:
		if w.hit() {
			x := v.Uint()
			if !v.OverflowUint(x+1) && x != math.MaxUint64 {
				v.SetUint(x + 1)
				w.set("leaf-uint", path, 1, inKey, gov)
			} else {
				v.SetUint(x - 1)
				w.set("leaf-uint", path, -1, inKey, gov)
			}
			return
		}
		if w.hit() {
			x := v.Uint()
			y := x ^ (uint64(1) << (v.Type().Bits() - 1))
			v.SetUint(y)
			d := 1
			if y < x {
				d = -1
			}
			w.set("leaf-uint-high", path, d, inKey, gov)
		}
	case reflect.Float32, reflect.Float64:
		if w.hit() {
			x := v.Float()
			y, d := mutFloat(x, v.Type().Bits())
			v.SetFloat(y)
			w.set("leaf-float", path, d, inKey, gov)
		}
	case reflect.Complex64, reflect.Complex128:
		bits := v.Type().Bits() / 2
		if w.hit() {
			c := v.Complex()
			y, d := mutFloat(real(c), bits)
			v.SetComplex(complex(y, imag(c)))
			w.set("leaf-complex-re", path, d, inKey, gov)
			return
		}
		if w.hit() {
			c := v.Complex()
			y, d := mutFloat(imag(c), bits)
			v.SetComplex(complex(real(c), y))
			w.set("leaf-complex-im", path, d, inKey, gov)
		}
	case reflect.String:
		if w.hit() {
			v.SetString(v.String() + "a")
			w.set("leaf-string", path, 1, inKey, gov)
			return
		}
		if len(v.String()) > 0 && w.hit() {
			s := []byte(v.String())
			d := 1
			if s[len(s)-1] == 0xff {
				s[len(s)-1]--
				d = -1
			} else {
				s[len(s)-1]++
			}
			v.SetString(string(s))
			w.set("leaf-string-byte", path, d, inKey, gov)
			return
		}
		// flip the case of the first ASCII letter: structurally a different string, but equal for a
		// case-insensitive user method governing the position
		if i := strings.IndexFunc(v.String(), func(r rune) bool { return r < 128 && (r|0x20) >= 'a' && (r|0x20) <= 'z' }); i >= 0 && w.hit() {
			s := []byte(v.String())
			d := 1
			if s[i] >= 'a' {
				d = -1
			}
			s[i] ^= 0x20
			v.SetString(string(s))
			w.set("leaf-string-case", path, d, inKey, gov)
		}
	case reflect.Pointer:
		if w.hit() {
			if v.IsNil() {
				p := reflect.New(t.Elem())
				v.Set(p)
				w.set("nil-ptr", path, 1, inKey, gov)
			} else {
				v.Set(reflect.Zero(t))
				w.set("nil-ptr", path, -1, inKey, gov)
			}
			return
		}
		if !v.IsNil() {
			w.walk(clean(v.Elem()), path+"*", inKey, gov, top, depth+1)
		}
	case reflect.Slice:
		if w.hit() {
			if v.IsNil() {
				v.Set(reflect.MakeSlice(t, 0, 0))
				w.set("nil-slice", path, 1, inKey, gov)
			} else if v.Len() == 0 {
				v.Set(reflect.Zero(t))
				w.set("nil-slice", path, -1, inKey, gov)
			} else {
				// non-empty -> nil changes nil-ness and length at once: still "nil first"
				v.Set(reflect.Zero(t))
				w.set("nil-slice", path, -1, inKey, gov)
			}
			return
		}
		if w.hit() {
			// length change: append a zero element (not a single-leaf mutation: laws only)
			nv := reflect.MakeSlice(t, v.Len()+1, v.Len()+1)
			reflect.Copy(nv, v)
			v.Set(nv)
			w.set("len-slice", path, 0, inKey, gov)
			return
		}
		for i := 0; i < v.Len() && !w.done; i++ {
			w.walk(clean(v.Index(i)), fmt.Sprintf("%s[%d]", path, i), inKey, gov, false, depth+1)
		}
	case reflect.Array:
		for i := 0; i < v.Len() && !w.done; i++ {
			w.walk(clean(v.Index(i)), fmt.Sprintf("%s[%d]", path, i), inKey, gov, false, depth+1)
		}
	case reflect.Map:
		if w.hit() {
			if v.IsNil() {
				v.Set(reflect.MakeMap(t))
				w.set("nil-map", path, 1, inKey, gov)
			} else {
				v.Set(reflect.Zero(t))
				w.set("nil-map", path, -1, inKey, gov)
			}
			return
		}
		if v.IsNil() {
			return
		}
		if w.hit() {
			// add an entry with a fresh key and a ZERO element: only key presence distinguishes it
			nk := reflect.New(t.Key()).Elem()
			scribbleKey(nk)
			if !v.MapIndex(nk).IsValid() {
				v.SetMapIndex(nk, reflect.Zero(t.Elem()))
				w.set("key-add", path, 0, inKey, gov)
			} else {
				w.done = false
			}
			return
		}
		keys := SortedKeys(v)
		if len(keys) > 0 && w.hit() {
			// replace one key by a fresh one, keeping the element and the length
			nk := reflect.New(t.Key()).Elem()
			scribbleKey(nk)
			if !v.MapIndex(nk).IsValid() {
				e := v.MapIndex(keys[0])
				v.SetMapIndex(keys[0], reflect.Value{})
				v.SetMapIndex(nk, e)
				w.set("key-swap", path, 0, true, gov)
			}
			return
		}
		for _, k := range keys {
			if w.done {
				return
			}
			// positions inside the key
			kk := addressable(k)
			kc := DeepClone(kk)
			w.walk(kc, path+"{key}", true, gov, false, depth+1)
			if w.done {
				if v.MapIndex(kc).IsValid() {
					// mutated key collides with another entry: not a single-position change; skip
					w.done = false
					continue
				}
				e := v.MapIndex(k)
				v.SetMapIndex(k, reflect.Value{})
				v.SetMapIndex(kc, e)
				return
			}
			// positions inside the element
			e := addressable(v.MapIndex(k))
			ec := reflect.New(t.Elem()).Elem()
			ec.Set(e)
			w.walk(ec, path+"{"+Canon(kk)+"}", inKey, gov, false, depth+1)
			if w.done {
				v.SetMapIndex(k, ec)
				return
			}
		}
	case reflect.Struct:
		for i := 0; i < v.NumField() && !w.done; i++ {
			if t.Field(i).Name == "_" {
				continue
			}
			w.walk(field(v, i), path+"."+t.Field(i).Name, inKey, gov, false, depth+1)
		}
	}
}

// mutFloat changes x to a different finite value and returns the direction.
func mutFloat(x float64, bits int) (float64, int) {
	y := x + 1
	if bits == 32 {
		y = float64(float32(y))
	}
	if y != x && !math.IsInf(y, 0) {
		return y, 1
	}
	y = x / 2
	if bits == 32 {
		y = float64(float32(y))
	}
	if y < x {
		return y, -1
	}
	return y, 1
}
