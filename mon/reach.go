package mon

import (
	"fmt"
	"reflect"
	"sort"
)

// DeepClone is the monitor's own reflective deep copier: every pointer target, slice backing
// array and map is freshly allocated (tree-shaped result, capacity == length).
func DeepClone(v reflect.Value) reflect.Value {
	dst := reflect.New(v.Type()).Elem()
	deepClone(dst, addressable(v), 0)
	return dst
}

func deepClone(dst, src reflect.Value, depth int) {
	if depth > 300 {
		panic("mon.DeepClone: value too deep (cycle?)")
	}
	switch src.Kind() {
	case reflect.Pointer:
		if src.IsNil() {
			dst.Set(reflect.Zero(src.Type()))
			return
		}
		p := reflect.New(src.Type().Elem())
		deepClone(p.Elem(), clean(src.Elem()), depth+1)
		dst.Set(p)
	case reflect.Slice:
		if src.IsNil() {
			dst.Set(reflect.Zero(src.Type()))
			return
		}
		s := reflect.MakeSlice(src.Type(), src.Len(), src.Len())
		for i := 0; i < src.Len(); i++ {
			deepClone(s.Index(i), clean(src.Index(i)), depth+1)
		}
		dst.Set(s)
	case reflect.Array:
		for i := 0; i < src.Len(); i++ {
			deepClone(dst.Index(i), clean(src.Index(i)), depth+1)
		}
	case reflect.Map:
		if src.IsNil() {
			dst.Set(reflect.Zero(src.Type()))
			return
		}
		m := reflect.MakeMapWithSize(src.Type(), src.Len())
		it := src.MapRange()
		for it.Next() {
			k := reflect.New(src.Type().Key()).Elem()
			deepClone(k, addressable(it.Key()), depth+1)
			e := reflect.New(src.Type().Elem()).Elem()
			deepClone(e, addressable(it.Value()), depth+1)
			m.SetMapIndex(k, e)
		}
		dst.Set(m)
	case reflect.Struct:
		for i := 0; i < src.NumField(); i++ {
			deepClone(field(dst, i), field(src, i), depth+1)
		}
	case reflect.Interface:
		if src.IsNil() {
			dst.Set(reflect.Zero(src.Type()))
			return
		}
		e := reflect.New(src.Elem().Type()).Elem()
		deepClone(e, addressable(src.Elem()), depth+1)
		dst.Set(e)
	default:
		dst.Set(src)
	}
}

// Region is a heap interval reachable from a value.
type Region struct {
	Lo, Hi uintptr
	What   string
}

// Reach collects the heap regions reachable from v: pointer targets (size > 0), slice backing
// arrays as [data, data+cap*elemsize) (cap > 0), map headers. String data is excluded (immutable,
// legitimately shared). Zero-size targets are excluded (they may all alias runtime.zerobase).
func Reach(v reflect.Value) []Region {
	var rs []Region
	reach(addressable(v), "", &rs, map[uintptr]bool{}, 0)
	return rs
}

func reach(v reflect.Value, path string, rs *[]Region, seen map[uintptr]bool, depth int) {
	if depth > 300 {
		return
	}
	switch v.Kind() {
	case reflect.Pointer:
		if v.IsNil() {
			return
		}
		sz := v.Type().Elem().Size()
		p := v.Pointer()
		if sz > 0 {
			*rs = append(*rs, Region{p, p + sz, path + "*"})
		}
		if seen[p] && sz > 0 {
			return
		}
		seen[p] = true
		reach(clean(v.Elem()), path+"*", rs, seen, depth+1)
	case reflect.Slice:
		if v.IsNil() {
			return
		}
		es := v.Type().Elem().Size()
		if v.Cap() > 0 && es > 0 {
			p := v.Pointer()
			*rs = append(*rs, Region{p, p + uintptr(v.Cap())*es, path + "[]"})
		}
		for i := 0; i < v.Len(); i++ {
			reach(clean(v.Index(i)), fmt.Sprintf("%s[%d]", path, i), rs, seen, depth+1)
		}
	case reflect.Array:
		for i := 0; i < v.Len(); i++ {
			reach(clean(v.Index(i)), fmt.Sprintf("%s[%d]", path, i), rs, seen, depth+1)
		}
	case reflect.Map:
		if v.IsNil() {
			return
		}
		p := v.Pointer()
		*rs = append(*rs, Region{p, p + 1, path + "{map}"})
		it := v.MapRange()
		for it.Next() {
			reach(addressable(it.Key()), path+"{key}", rs, seen, depth+1)
			reach(addressable(it.Value()), path+"{val}", rs, seen, depth+1)
		}
	case reflect.Struct:
		for i := 0; i < v.NumField(); i++ {
			reach(field(v, i), path+"."+v.Type().Field(i).Name, rs, seen, depth+1)
		}
	case reflect.Interface:
		if !v.IsNil() {
			reach(addressable(v.Elem()), path+"<i>", rs, seen, depth+1)
		}
	}
}

// Overlap returns a description of the first overlap between two region sets, or "".
func Overlap(a, b []Region) string {
	type ev struct {
		r    Region
		side int
	}
	all := make([]ev, 0, len(a)+len(b))
	for _, r := range a {
		all = append(all, ev{r, 0})
	}
	for _, r := range b {
		all = append(all, ev{r, 1})
	}
	sort.Slice(all, func(i, j int) bool { return all[i].r.Lo < all[j].r.Lo })
	// sweep keeping the furthest end seen per side
	var maxHi [2]uintptr
	var maxR [2]Region
	for _, e := range all {
		o := 1 - e.side
		if maxHi[o] > e.r.Lo {
			return fmt.Sprintf("%s [%#x,%#x) overlaps %s [%#x,%#x)", maxR[o].What, maxR[o].Lo, maxR[o].Hi, e.r.What, e.r.Lo, e.r.Hi)
		}
		if e.r.Hi > maxHi[e.side] {
			maxHi[e.side] = e.r.Hi
			maxR[e.side] = e.r
		}
	}
	return ""
}

// SelfOverlap reports whether a value's own regions overlap each other other than by identical
// pointer (i.e. the value is not tree-shaped). Used to assert preconditions on prior destinations.
func TreeShaped(v reflect.Value) bool {
	rs := Reach(v)
	sort.Slice(rs, func(i, j int) bool { return rs[i].Lo < rs[j].Lo })
	var hi uintptr
	for _, r := range rs {
		if r.Lo < hi {
			return false
		}
		if r.Hi > hi {
			hi = r.Hi
		}
	}
	return true
}

// Scribble overwrites, in place, every location reachable from v (v addressable): every leaf is
// changed to a different value, slices are scribbled up to their capacity, every map gets its
// values scribbled and one extra entry where a fresh key can be made. It returns the number of
// writes performed. Pointers, slice headers and map headers themselves are left in place, so the
// writes land in the memory reachable from v.
func Scribble(v reflect.Value) int {
	n := 0
	scribble(clean(v), &n, map[uintptr]bool{}, 0)
	return n
}

func scribble(v reflect.Value, n *int, seen map[uintptr]bool, depth int) {
	if depth > 300 {
		return
	}
	switch v.Kind() {
	case reflect.Bool:
		v.SetBool(!v.Bool())
		*n++
	case reflect.Int, reflect.Int8, reflect.Int16, reflect.Int32, reflect.Int64:
		v.SetInt(v.Int() ^ 0x55)
		*n++
	case reflect.Uint, reflect.Uint8, reflect.Uint16, reflect.Uint32, reflect.Uint64, reflect.Uintptr:
		v.SetUint(v.Uint() ^ 0x55)
		*n++
	case reflect.Float32, reflect.Float64:
		v.SetFloat(v.Float()/2 + 17)
		*n++
	case reflect.Complex64, reflect.Complex128:
		v.SetComplex(v.Complex() + complex(17, 3))
		*n++
	case reflect.String:
		v.SetString(v.String() + "~scribbled")
		*n++
	case reflect.Pointer:
		if v.IsNil() {
			return
		}
		p := v.Pointer()
		if seen[p] {
			return
		}
		seen[p] = true
		scribble(clean(v.Elem()), n, seen, depth+1)
	case reflect.Slice:
		if v.IsNil() {
			return
		}
		full := v.Slice(0, v.Cap())
		if v.Cap() > 0 {
			p := full.Pointer()
			if seen[p] {
				return
			}
			seen[p] = true
		}
		for i := 0; i < full.Len(); i++ {
			scribble(clean(full.Index(i)), n, seen, depth+1)
		}
	case reflect.Array:
		for i := 0; i < v.Len(); i++ {
			scribble(clean(v.Index(i)), n, seen, depth+1)
		}
	case reflect.Map:
		if v.IsNil() {
			return
		}
		p := v.Pointer()
		if seen[p] {
			return
		}
		seen[p] = true
		for _, k := range v.MapKeys() {
			mv := v.MapIndex(k)
			if !mv.IsValid() {
				continue // NaN key: not reachable by lookup
			}
			e := addressable(mv)
			scribble(e, n, seen, depth+1)
			v.SetMapIndex(k, e)
			// key contents may point into shared memory as well
			kk := addressable(k)
			_ = kk
		}
		// one extra entry
		nk := reflect.New(v.Type().Key()).Elem()
		scribbleKey(nk)
		if !v.MapIndex(nk).IsValid() {
			v.SetMapIndex(nk, reflect.Zero(v.Type().Elem()))
			*n++
		}
	case reflect.Struct:
		for i := 0; i < v.NumField(); i++ {
			scribble(field(v, i), n, seen, depth+1)
		}
	}
}

func scribbleKey(k reflect.Value) {
	switch k.Kind() {
	case reflect.String:
		k.SetString("~extra-key~")
	case reflect.Int, reflect.Int8, reflect.Int16, reflect.Int32, reflect.Int64:
		k.SetInt(101)
	case reflect.Uint, reflect.Uint8, reflect.Uint16, reflect.Uint32, reflect.Uint64, reflect.Uintptr:
		k.SetUint(101)
	case reflect.Float32, reflect.Float64:
		k.SetFloat(101.5)
	case reflect.Bool:
		k.SetBool(true)
	case reflect.Array:
		for i := 0; i < k.Len(); i++ {
			scribbleKey(k.Index(i))
		}
	case reflect.Struct:
		for i := 0; i < k.NumField(); i++ {
			scribbleKey(field(k, i))
		}
	}
}
