package mon

import (
	"errors"
	"fmt"
	"math/rand"
	"os"
	"runtime"
	"sort"
	"strings"
	"sync"
	"sync/atomic"
	"time"
)

// DoComb is the glue for one arity of deriveDo (all functions return (int, error)).
type DoComb struct {
	N   int
	Run func(fs []func() (int, error)) ([]int, error)
}

var doCombs []*DoComb

// RegDo registers a deriveDo adapter.
func RegDo(d *DoComb) { doCombs = append(doCombs, d) }

func init() { mains["C20"] = doMain }

type doScenario struct {
	N          int
	FailMask   int
	Order      []int // completion order
	Rendezvous bool  // every function waits until all functions have started
	Procs      int
	Seed       int64
}

func perms(n int) [][]int {
	var out [][]int
	var rec func(cur []int, used int)
	rec = func(cur []int, used int) {
		if len(cur) == n {
			out = append(out, append([]int{}, cur...))
			return
		}
		for i := 0; i < n; i++ {
			if used&(1<<i) == 0 {
				rec(append(cur, i), used|1<<i)
			}
		}
	}
	rec(nil, 0)
	return out
}

func runDo(d *DoComb, sc doScenario) (viol []string, incon string) {
	runtime.GOMAXPROCS(sc.Procs)
	atomic.StoreInt64(&yieldN, 0)
	yieldSeed = uint64(sc.Seed)*0x9E3779B97F4A7C15 + 777
	n := sc.N
	started := make([]int64, n)
	finishing := make([]int64, n)
	turn := make([]chan struct{}, n)
	for i := range turn {
		turn[i] = make(chan struct{})
	}
	// each turn channel is closed at most once, whether by its predecessor or by the release after a
	// detected deadlock
	once := make([]sync.Once, n)
	closeTurn := func(i int) { once[i].Do(func() { close(turn[i]) }) }
	pos := make([]int, n)
	for p, i := range sc.Order {
		pos[i] = p
	}
	errs := make([]error, n)
	var barrier sync.WaitGroup
	barrier.Add(n)
	var doReturned, early int32
	fs := make([]func() (int, error), n)
	for i := 0; i < n; i++ {
		i := i
		if sc.FailMask&(1<<i) != 0 {
			// errors of different dynamic types (a store that insists on one concrete type would choke)
			switch i % 3 {
			case 0:
				errs[i] = errors.New(fmt.Sprintf("failure of function %d", i))
			case 1:
				errs[i] = fmt.Errorf("failure of function %d: %w", i, errors.New("cause"))
			default:
				errs[i] = &doFailure{i}
			}
		}
		fs[i] = func() (int, error) {
			atomic.StoreInt64(&started[i], tick())
			r := rand.New(rand.NewSource(sc.Seed*97 + int64(i)))
			if sc.Rendezvous {
				barrier.Done()
				barrier.Wait()
			}
			<-turn[i]
			perturb(r)
			if pos[i] == n-1 {
				// the last function to finish lingers: a Do that returns before it has finished is caught here
				for k := 0; k < 1500 && atomic.LoadInt32(&doReturned) == 0; k++ {
					runtime.Gosched()
				}
				if atomic.LoadInt32(&doReturned) != 0 {
					atomic.StoreInt32(&early, 1)
				}
			}
			atomic.StoreInt64(&finishing[i], tick())
			if pos[i]+1 < n {
				closeTurn(sc.Order[pos[i]+1])
			}
			if errs[i] != nil {
				return 1000 + i, errs[i]
			}
			return 100 + i, nil
		}
	}
	closeTurn(sc.Order[0])
	var vals []int
	var err error
	var tRet int64
	done := make(chan string, 1)
	go func() {
		defer func() {
			if e := recover(); e != nil {
				done <- fmt.Sprintf("panic: %v", e)
			}
		}()
		vals, err = d.Run(fs)
		atomic.StoreInt32(&doReturned, 1)
		tRet = tick()
		done <- ""
	}()
	select {
	case p := <-done:
		if p != "" {
			return []string{"panic: deriveDo panicked: " + p}, ""
		}
	case <-time.After(10 * time.Second):
		a := derivedGoroutines()
		time.Sleep(300 * time.Millisecond)
		b := derivedGoroutines()
		ida := map[string]bool{}
		for _, g := range a {
			ida[g.ID] = true
		}
		all := len(b) > 0
		var st []string
		for _, g := range b {
			st = append(st, "goroutine "+g.ID+" ["+g.State+"]")
			if !ida[g.ID] || !blockedState(g.State) {
				all = false
			}
		}
		// release everything so that the process can go on
		for i := range turn {
			closeTurn(i)
		}
		if all {
			var notStarted []int
			for i := range started {
				if atomic.LoadInt64(&started[i]) == 0 {
					notStarted = append(notStarted, i)
				}
			}
			return []string{fmt.Sprintf("deadlock: deriveDo did not return; functions never started: %v; goroutines in derived code: %v", notStarted, st)}, ""
		}
		return nil, "watchdog fired but goroutines in derived code are runnable: " + strings.Join(st, ", ")
	}
	if atomic.LoadInt32(&early) != 0 {
		viol = append(viol, "returned-early: deriveDo returned before its last function had returned")
	}
	for i := 0; i < n; i++ {
		s, f := atomic.LoadInt64(&started[i]), atomic.LoadInt64(&finishing[i])
		if s == 0 {
			viol = append(viol, fmt.Sprintf("not-started: function %d was never started", i))
		} else if f == 0 || f > tRet {
			viol = append(viol, fmt.Sprintf("returned-early: deriveDo returned (t=%d) before function %d finished (t=%d)", tRet, i, f))
		}
	}
	if len(vals) != n {
		viol = append(viol, fmt.Sprintf("values: %d values returned for %d functions", len(vals), n))
	} else {
		for i, v := range vals {
			want := 100 + i
			if errs[i] != nil {
				want = 1000 + i
			}
			if v != want {
				viol = append(viol, fmt.Sprintf("values: position %d holds %d, function %d returned %d", i, v, i, want))
			}
		}
	}
	if sc.FailMask == 0 {
		if err != nil {
			viol = append(viol, fmt.Sprintf("error: all functions succeeded but the error is %v", err))
		}
	} else {
		ok := false
		for _, e := range errs {
			if e != nil && e == err {
				ok = true
			}
		}
		if !ok {
			viol = append(viol, fmt.Sprintf("error: functions %b failed but the returned error %v is none of theirs", sc.FailMask, err))
		}
	}
	if q := quiesce(); strings.HasPrefix(q, "leak") {
		viol = append(viol, "goroutine "+q+" after deriveDo returned")
	} else if q == "inconclusive" {
		incon = "goroutines in derived code did not settle"
	}
	return viol, incon
}

// runDoOverlap runs two calls of one derived Do at the same time. Function j of call c is id c*n+j; the 2n
// functions finish in the given order (token passing). Each call is judged on its own: positional values, its
// own error, and no return before its own functions have finished.
func runDoOverlap(d *DoComb, masks [2]int, order []int, rendezvous bool, procs int, seed int64) (viol []string, incon string) {
	runtime.GOMAXPROCS(procs)
	atomic.StoreInt64(&yieldN, 0)
	yieldSeed = uint64(seed)*0x9E3779B97F4A7C15 + 4242
	n := d.N
	turn := make([]chan struct{}, 2*n)
	once := make([]sync.Once, 2*n)
	for i := range turn {
		turn[i] = make(chan struct{})
	}
	closeTurn := func(i int) { once[i].Do(func() { close(turn[i]) }) }
	pos := make([]int, 2*n)
	for p, id := range order {
		pos[id] = p
	}
	lastOf := [2]int{-1, -1} // the function of each call that finishes last
	for _, id := range order {
		lastOf[id/n] = id
	}
	finishing := make([]int64, 2*n)
	errs := make([]error, 2*n)
	var returned [2]int32
	var early [2]int32
	var barriers [2]sync.WaitGroup
	fss := [2][]func() (int, error){}
	for c := 0; c < 2; c++ {
		barriers[c].Add(n)
		for j := 0; j < n; j++ {
			c, j, id := c, j, c*n+j
			if masks[c]&(1<<j) != 0 {
				errs[id] = fmt.Errorf("failure of function %d of call %d", j, c)
			}
			fss[c] = append(fss[c], func() (int, error) {
				r := rand.New(rand.NewSource(seed*97 + int64(id)))
				if rendezvous {
					barriers[c].Done()
					barriers[c].Wait()
				}
				<-turn[id]
				perturb(r)
				if lastOf[c] == id {
					for k := 0; k < 1500 && atomic.LoadInt32(&returned[c]) == 0; k++ {
						runtime.Gosched()
					}
					if atomic.LoadInt32(&returned[c]) != 0 {
						atomic.StoreInt32(&early[c], 1)
					}
				}
				atomic.StoreInt64(&finishing[id], tick())
				if pos[id]+1 < 2*n {
					closeTurn(order[pos[id]+1])
				}
				if errs[id] != nil {
					return 1000*(c+1) + 500 + j, errs[id]
				}
				return 1000*(c+1) + j, nil
			})
		}
	}
	var vals [2][]int
	var rerr [2]error
	var tRet [2]int64
	done := make(chan string, 2)
	for c := 0; c < 2; c++ {
		c := c
		go func() {
			defer func() {
				if e := recover(); e != nil {
					done <- fmt.Sprintf("panic: %v", e)
				}
			}()
			vals[c], rerr[c] = d.Run(fss[c])
			atomic.StoreInt32(&returned[c], 1)
			tRet[c] = tick()
			done <- ""
		}()
	}
	closeTurn(order[0])
	for got := 0; got < 2; got++ {
		select {
		case p := <-done:
			if p != "" {
				for i := range turn {
					closeTurn(i)
				}
				return []string{"panic: deriveDo panicked: " + p}, ""
			}
		case <-time.After(10 * time.Second):
			a := derivedGoroutines()
			time.Sleep(300 * time.Millisecond)
			b := derivedGoroutines()
			ida := map[string]bool{}
			for _, g := range a {
				ida[g.ID] = true
			}
			all := len(b) > 0
			var st []string
			for _, g := range b {
				st = append(st, "goroutine "+g.ID+" ["+g.State+"]")
				if !ida[g.ID] || !blockedState(g.State) {
					all = false
				}
			}
			for i := range turn {
				closeTurn(i)
			}
			if all {
				return []string{fmt.Sprintf("deadlock: two overlapping calls of deriveDo did not both return; goroutines in derived code: %v", st)}, ""
			}
			return nil, "watchdog fired but goroutines in derived code are runnable: " + strings.Join(st, ", ")
		}
	}
	for c := 0; c < 2; c++ {
		if atomic.LoadInt32(&early[c]) != 0 {
			viol = append(viol, fmt.Sprintf("returned-early: call %d of deriveDo returned before its last function had returned", c))
		}
		if len(vals[c]) != n {
			viol = append(viol, fmt.Sprintf("values: call %d got %d values for %d functions", c, len(vals[c]), n))
			continue
		}
		failed := false
		mine := false
		for j := 0; j < n; j++ {
			id := c*n + j
			if f := atomic.LoadInt64(&finishing[id]); f == 0 || f > tRet[c] {
				viol = append(viol, fmt.Sprintf("returned-early: call %d returned (t=%d) before its function %d finished (t=%d)", c, tRet[c], j, f))
			}
			want := 1000*(c+1) + j
			if errs[id] != nil {
				want += 500
				failed = true
				mine = mine || errs[id] == rerr[c]
			}
			if vals[c][j] != want {
				viol = append(viol, fmt.Sprintf("values: call %d position %d holds %d, its function returned %d", c, j, vals[c][j], want))
			}
		}
		if !failed && rerr[c] != nil {
			viol = append(viol, fmt.Sprintf("error: all functions of call %d succeeded but its error is %v", c, rerr[c]))
		}
		if failed && !mine {
			viol = append(viol, fmt.Sprintf("error: call %d (failing %b) returned the error %v, which none of its functions returned", c, masks[c], rerr[c]))
		}
	}
	if q := quiesce(); strings.HasPrefix(q, "leak") {
		viol = append(viol, "goroutine "+q+" after both calls of deriveDo returned")
	} else if q == "inconclusive" {
		incon = "goroutines in derived code did not settle"
	}
	return viol, incon
}

func doMain(c Config, emit func(*Rep)) {
	yieldOn = os.Getenv("VERIF_YIELD") == "1"
	yieldTrace = make([]int32, 1<<14)
	reps := 5
	if c.Tier == "thorough" {
		reps = 200
	}
	if v := os.Getenv("VERIF_REPS"); v != "" {
		fmt.Sscan(v, &reps)
	}
	sort.SliceStable(doCombs, func(i, j int) bool { return doCombs[i].N < doCombs[j].N })
	for _, d := range doCombs {
		id := fmt.Sprintf("do%d", d.N)
		if c.Only != nil && !c.Only[id] {
			continue
		}
		r := newRep(id, c.Prop, id)
		sigs := map[uint64]bool{}
		nscen, stuck := 0, 0
	scenarios:
		for mask := 0; mask < 1<<d.N; mask++ {
			for _, ord := range perms(d.N) {
				for rep := 0; rep < reps; rep++ {
					if stuck >= 3 {
						// every further scenario would wait for the watchdog again: three witnesses are enough
						r.Res.Classes["skipped-after-repeated-deadlock"]++
						break scenarios
					}
					sc := doScenario{N: d.N, FailMask: mask, Order: ord, Rendezvous: rep%2 == 1, Procs: []int{1, 2, 4, 16}[(rep/2+mask)%4], Seed: c.Seed*1000003 + int64(mask*131+rep)}
					Progress(fmt.Sprintf("%s %+v", id, sc))
					viol, incon := runDo(d, sc)
					nscen++
					if yieldOn {
						sigs[traceSig()] = true
					}
					cl := fmt.Sprintf("n=%d/failing=%d/rendezvous=%v", d.N, popcount(mask), sc.Rendezvous)
					if incon != "" {
						r.Res.Classes["inconclusive"]++
						continue
					}
					if len(viol) > 0 {
						for _, v := range viol {
							if strings.HasPrefix(v, "deadlock") {
								stuck++
							}
							r.Fail(strings.SplitN(v, ":", 2)[0], "%s\n scenario: %+v", v, sc)
						}
						continue
					}
					r.Ok(cl + fmt.Sprintf("/order=%v", ord))
				}
			}
		}
		// two overlapping calls of the same derived Do from two goroutines (state shared between calls - a
		// package-level channel, a reused buffer - is invisible to one call at a time)
		novl := 0
		for k := 0; k < reps*6 && stuck < 3; k++ {
			rr := rand.New(rand.NewSource(c.Seed*7919 + int64(d.N*1000+k)))
			masks := [2]int{rr.Intn(1 << d.N), rr.Intn(1 << d.N)}
			switch k {
			case 0:
				masks = [2]int{1, 0}
			case 1:
				masks = [2]int{0, 1 << (d.N - 1)}
			case 2:
				masks = [2]int{0, 0}
			}
			procs := []int{1, 2, 4, 16}[k%4]
			Progress(fmt.Sprintf("%s overlap k=%d masks=%v procs=%d", id, k, masks, procs))
			viol, incon := runDoOverlap(d, masks, rr.Perm(2*d.N), k%2 == 1, procs, c.Seed*1000003+int64(k))
			nscen++
			novl++
			if yieldOn {
				sigs[traceSig()] = true
			}
			if incon != "" {
				r.Res.Classes["inconclusive"]++
				continue
			}
			if len(viol) > 0 {
				for _, v := range viol {
					if strings.HasPrefix(v, "deadlock") {
						stuck++
					}
					r.Fail("overlap-"+strings.SplitN(v, ":", 2)[0], "%s\n two overlapping calls: failing masks %v, procs %d, k=%d", v, masks, procs, k)
				}
				continue
			}
			r.Ok(fmt.Sprintf("overlap/n=%d/failingA=%d/failingB=%d/rendezvous=%v", d.N, popcount(masks[0]), popcount(masks[1]), k%2 == 1))
		}
		runtime.GOMAXPROCS(runtime.NumCPU())
		r.Res.Extra = map[string]any{"scenarios": nscen, "overlapping_call_scenarios": novl, "interleaving_signatures": len(sigs)}
		emit(r)
	}
	Progress("")
}

func popcount(x int) int {
	n := 0
	for ; x > 0; x &= x - 1 {
		n++
	}
	return n
}

// doFailure is a third dynamic error type returned by failing functions.
type doFailure struct{ fn int }

func (e *doFailure) Error() string { return fmt.Sprintf("failure of function %d (custom type)", e.fn) }
