package mon

import (
	"fmt"
	"math"
	"reflect"
)

func init() {
	monitors["C02"] = monC02
	monitors["C03"] = monC03
	monitors["C04"] = monC04
	monitors["C05"] = monC05
	monitors["C06"] = monC06
}

// hasFloat reports whether any float leaf is reachable in the type.
func hasFloat(t reflect.Type, seen map[reflect.Type]bool) bool {
	if seen[t] {
		return false
	}
	seen[t] = true
	switch t.Kind() {
	case reflect.Float32, reflect.Float64, reflect.Complex64, reflect.Complex128:
		return true
	case reflect.Pointer, reflect.Slice, reflect.Array:
		return hasFloat(t.Elem(), seen)
	case reflect.Map:
		return hasFloat(t.Key(), seen) || hasFloat(t.Elem(), seen)
	case reflect.Struct:
		for i := 0; i < t.NumField(); i++ {
			if hasFloat(t.Field(i).Type, seen) {
				return true
			}
		}
	}
	return false
}

// FlipZeros returns a deep clone of v in which every float zero (also inside complex numbers,
// but not inside map keys) has its sign flipped, and whether anything changed.
func FlipZeros(v reflect.Value) (reflect.Value, bool) {
	c := DeepClone(v)
	n := 0
	flipZeros(c, &n, 0)
	return c, n > 0
}

func flipZeros(v reflect.Value, n *int, depth int) {
	if depth > 300 {
		return
	}
	switch v.Kind() {
	case reflect.Float32, reflect.Float64:
		if v.Float() == 0 {
			v.SetFloat(math.Copysign(0, -signOf(v.Float())))
			*n++
		}
	case reflect.Complex64, reflect.Complex128:
		c := v.Complex()
		re, im := real(c), imag(c)
		if re == 0 {
			re = math.Copysign(0, -signOf(re))
			*n++
		}
		if im == 0 {
			im = math.Copysign(0, -signOf(im))
			*n++
		}
		v.SetComplex(complex(re, im))
	case reflect.Pointer:
		if !v.IsNil() {
			flipZeros(clean(v.Elem()), n, depth+1)
		}
	case reflect.Slice, reflect.Array:
		for i := 0; i < v.Len(); i++ {
			flipZeros(clean(v.Index(i)), n, depth+1)
		}
	case reflect.Map:
		for _, k := range v.MapKeys() {
			e := addressable(v.MapIndex(k))
			ec := reflect.New(e.Type()).Elem()
			ec.Set(e)
			flipZeros(ec, n, depth+1)
			// a zero inside the key changes its sign too: -0 and +0 are the same key, the entry is stored
			// again under the flipped spelling
			kc := reflect.New(k.Type()).Elem()
			kc.Set(k)
			nk := 0
			flipZeros(kc, &nk, depth+1)
			if nk > 0 {
				v.SetMapIndex(k, reflect.Value{})
				*n += nk
			}
			v.SetMapIndex(kc, ec)
		}
	case reflect.Struct:
		for i := 0; i < v.NumField(); i++ {
			flipZeros(field(v, i), n, depth+1)
		}
	}
}

func signOf(f float64) float64 {
	if math.Signbit(f) {
		return -1
	}
	return 1
}

// Respare returns a deep clone of v in which every non-nil slice has spare capacity and every map
// was populated in descending key order (insertion order and capacity must not matter).
func Respare(v reflect.Value) reflect.Value {
	c := DeepClone(v)
	respare(c, 0)
	return c
}

func respare(v reflect.Value, depth int) {
	if depth > 300 {
		return
	}
	switch v.Kind() {
	case reflect.Pointer:
		if !v.IsNil() {
			respare(clean(v.Elem()), depth+1)
		}
	case reflect.Slice:
		if v.IsNil() {
			return
		}
		ns := reflect.MakeSlice(v.Type(), v.Len(), v.Len()+3)
		reflect.Copy(ns, v)
		// poison the spare capacity with non-zero garbage where possible
		full := ns.Slice(0, ns.Cap())
		for i := v.Len(); i < full.Len(); i++ {
			n := 0
			scribble(clean(full.Index(i)), &n, map[uintptr]bool{}, 0)
		}
		v.Set(ns)
		for i := 0; i < v.Len(); i++ {
			respare(clean(v.Index(i)), depth+1)
		}
	case reflect.Array:
		for i := 0; i < v.Len(); i++ {
			respare(clean(v.Index(i)), depth+1)
		}
	case reflect.Map:
		if v.IsNil() {
			return
		}
		keys := SortedKeys(v)
		nm := reflect.MakeMapWithSize(v.Type(), 64) // different bucket layout
		for i := len(keys) - 1; i >= 0; i-- {
			e := reflect.New(v.Type().Elem()).Elem()
			e.Set(v.MapIndex(keys[i]))
			respare(e, depth+1)
			nm.SetMapIndex(keys[i], e)
		}
		v.Set(nm)
	case reflect.Struct:
		for i := 0; i < v.NumField(); i++ {
			respare(field(v, i), depth+1)
		}
	}
}

type pool struct {
	vals   []reflect.Value
	before []string
}

func makePool(o *TypeOps, c Config, salt int64) *pool {
	g := NewGen(itemSeed(c.Seed+salt, o.ID))
	p := &pool{vals: g.Pool(o.T, c.PoolN)}
	for _, v := range p.vals {
		p.before = append(p.before, CanonExact(v))
	}
	return p
}

// unchanged asserts that no derived function modified a pool value.
func (p *pool) unchanged(r *Rep, what string) {
	for i, v := range p.vals {
		if CanonExact(v) != p.before[i] {
			r.Fail("argument-modified", "%s modified its argument: before %s after %s", what, p.before[i], CanonExact(v))
		} else {
			r.Ok("argument-unmodified")
		}
	}
}

func pairClass(i, j int, eq bool) string {
	if i == j {
		return "identical"
	}
	if eq {
		return "pool-pair-equal"
	}
	return "pool-pair-unequal"
}

// ---------------------------------------------------------------------------------------------
// C02: derived Equal is exactly structural equality

func callEqual(o *TypeOps, a, b reflect.Value) (res bool, p string) {
	p = try(func() { res = o.Equal(a.Interface(), b.Interface()) })
	return
}

func monC02(o *TypeOps, c Config, r *Rep) {
	if o.Equal == nil {
		r.Res.Skipped = "no Equal"
		return
	}
	pl := makePool(o, c, 0)
	check := func(class string, a, b reflect.Value) {
		want := RefEqual(a, b)
		got, pn := callEqual(o, a, b)
		if pn != "" {
			r.Fail(class, "deriveEqual panicked: %s\n a=%s\n b=%s", pn, show(a), show(b))
			return
		}
		if got != want {
			r.Fail(class, "deriveEqual=%v, structural reference=%v\n a=%s\n b=%s", got, want, show(a), show(b))
			return
		}
		r.Ok(class)
		if o.EqualCurried != nil {
			var cg bool
			if pn := try(func() { cg = o.EqualCurried(a.Interface())(b.Interface()) }); pn != "" {
				r.Fail("curried", "curried deriveEqual panicked: %s", pn)
			} else if cg != got {
				r.Fail("curried", "curried form=%v, binary form=%v\n a=%s\n b=%s", cg, got, show(a), show(b))
			} else {
				r.Ok("curried")
			}
		}
	}
	n := len(pl.vals)
	eqm := make([][]bool, n)
	for i, a := range pl.vals {
		eqm[i] = make([]bool, n)
		for j, b := range pl.vals {
			want := RefEqual(a, b)
			check(pairClass(i, j, want), a, b)
			eqm[i][j], _ = callEqual(o, a, b)
		}
	}
	// laws on the derived relation itself (they localise a fault better than the reference does)
	for i := 0; i < n; i++ {
		for j := 0; j < n; j++ {
			if eqm[i][j] != eqm[j][i] {
				r.Fail("symmetry", "deriveEqual(a,b)=%v but deriveEqual(b,a)=%v\n a=%s\n b=%s", eqm[i][j], eqm[j][i], show(pl.vals[i]), show(pl.vals[j]))
			}
			for k := 0; k < n; k++ {
				if eqm[i][j] && eqm[j][k] && !eqm[i][k] {
					r.Fail("transitivity", "a=b, b=c but a!=c\n a=%s\n b=%s\n c=%s", show(pl.vals[i]), show(pl.vals[j]), show(pl.vals[k]))
				}
			}
		}
	}
	r.Res.Evals += int64(n * n)
	r.Res.Classes["laws"] += int64(n * n)
	for _, v := range pl.vals {
		check("equal-fresh", v, DeepClone(v))
		check("equal-respared", v, Respare(v))
		if z, ok := FlipZeros(v); ok {
			check("pm-zero", v, z)
		}
		for _, m := range Mutants(v, c.MaxMut) {
			cl := m.Class
			if m.InMapKey {
				cl += "@key"
			}
			check(cl, v, m.V)
			check(cl, m.V, v)
		}
		// two views of ONE backing array that start at the same element but differ in length
		for _, sv := range SharedViews(v, 3) {
			check("shared-backing-array", sv[0], sv[1])
			check("shared-backing-array", sv[1], sv[0])
		}
	}
	pl.unchanged(r, "deriveEqual")
	if o.EqualCurried != nil {
		b2i := func(b bool) int {
			if b {
				return 1
			}
			return 0
		}
		heldCurried(o.T, pl.vals, r, func(w reflect.Value) func(reflect.Value) (int, int) {
			f := o.EqualCurried(w.Interface())
			return func(b reflect.Value) (int, int) {
				return b2i(f(b.Interface())), b2i(o.Equal(w.Interface(), b.Interface()))
			}
		})
	}
}

// ---------------------------------------------------------------------------------------------
// C03: derived Compare is a total order consistent with (derived) Equal

func monC03(o *TypeOps, c Config, r *Rep) {
	if o.Compare == nil || o.Equal == nil {
		r.Res.Skipped = "no Compare/Equal"
		return
	}
	pl := makePool(o, c, 0)
	cmp := func(a, b reflect.Value) (int, bool) {
		var res int
		if pn := try(func() { res = o.Compare(a.Interface(), b.Interface()) }); pn != "" {
			r.Fail("panic", "deriveCompare panicked: %s\n a=%s\n b=%s", pn, show(a), show(b))
			return 0, false
		}
		if res != -1 && res != 0 && res != 1 {
			r.Fail("range", "deriveCompare returned %d\n a=%s\n b=%s", res, show(a), show(b))
			return res, false
		}
		return res, true
	}
	pairLaws := func(class string, a, b reflect.Value) (int, bool) {
		ab, ok1 := cmp(a, b)
		ba, ok2 := cmp(b, a)
		if !ok1 || !ok2 {
			return 0, false
		}
		if ab != -ba {
			r.Fail(class+"/antisymmetry", "compare(a,b)=%d but compare(b,a)=%d\n a=%s\n b=%s", ab, ba, show(a), show(b))
			return ab, false
		}
		eq, pn := callEqual(o, a, b)
		if pn != "" {
			r.Fail(class+"/equal-panic", "deriveEqual panicked: %s", pn)
			return ab, false
		}
		if (ab == 0) != eq {
			r.Fail(class+"/zero-iff-equal", "compare(a,b)=%d but derived Equal(a,b)=%v (structural reference says %v)\n a=%s\n b=%s", ab, eq, RefEqual(a, b), show(a), show(b))
			return ab, false
		}
		if o.CompareCurried != nil {
			var cg int
			if pn := try(func() { cg = o.CompareCurried(a.Interface())(b.Interface()) }); pn != "" {
				r.Fail("curried", "curried deriveCompare panicked: %s", pn)
			} else if cg != ab {
				r.Fail("curried", "curried form=%d, binary form=%d\n a=%s\n b=%s", cg, ab, show(a), show(b))
			} else {
				r.Ok("curried")
			}
		}
		r.Ok(class)
		return ab, true
	}
	n := len(pl.vals)
	m := make([][]int, n)
	okm := true
	for i, a := range pl.vals {
		m[i] = make([]int, n)
		for j, b := range pl.vals {
			cl := "pool-pair"
			if i == j {
				cl = "identical"
			}
			v, ok := pairLaws(cl, a, b)
			m[i][j] = v
			okm = okm && ok
		}
	}
	if okm {
		for i := 0; i < n; i++ {
			for j := 0; j < n; j++ {
				for k := 0; k < n; k++ {
					if m[i][j] <= 0 && m[j][k] <= 0 && m[i][k] > 0 {
						r.Fail("transitivity", "a<=b, b<=c but a>c\n a=%s\n b=%s\n c=%s", show(pl.vals[i]), show(pl.vals[j]), show(pl.vals[k]))
					} else if m[i][j] < 0 && m[j][k] < 0 && m[i][k] >= 0 {
						r.Fail("transitivity", "a<b, b<c but not a<c\n a=%s\n b=%s\n c=%s", show(pl.vals[i]), show(pl.vals[j]), show(pl.vals[k]))
					}
				}
			}
		}
		r.Res.Evals += int64(n * n * n)
		r.Res.Classes["triples"] += int64(n * n * n)
	}
	for _, v := range pl.vals {
		pairLaws("equal-fresh", v, DeepClone(v))
		pairLaws("equal-respared", v, Respare(v))
		if z, ok := FlipZeros(v); ok {
			pairLaws("pm-zero", v, z)
		}
		for _, mu := range Mutants(v, c.MaxMut) {
			cl := mu.Class
			if mu.InMapKey {
				cl += "@key"
			}
			vm, ok := pairLaws(cl, v, mu.V)
			if !ok || mu.Dir == 0 {
				continue
			}
			// natural direction, only for values that Equal distinguishes
			if eq, _ := callEqual(o, v, mu.V); eq {
				continue
			}
			if vm != -mu.Dir {
				r.Fail(cl+"/direction", "mutant at %s is naturally %s than the original, but compare(original, mutant)=%d\n original=%s\n mutant=%s",
					mu.Path, map[int]string{1: "greater", -1: "smaller"}[mu.Dir], vm, show(v), show(mu.V))
			} else {
				r.Ok(cl + "/direction")
			}
		}
	}
	pl.unchanged(r, "deriveCompare")
	for _, v := range pl.vals {
		// two views of ONE backing array that start at the same element but differ in length
		for _, sv := range SharedViews(v, 3) {
			pairLaws("shared-backing-array", sv[0], sv[1])
		}
	}
	// a curried function that is kept while its (reference-typed) argument changes: at every call it
	// must agree with the binary form on the argument as it is then
	if o.CompareCurried != nil {
		heldCurried(o.T, pl.vals, r, func(w reflect.Value) func(reflect.Value) (int, int) {
			f := o.CompareCurried(w.Interface())
			return func(b reflect.Value) (int, int) { return f(b.Interface()), o.Compare(w.Interface(), b.Interface()) }
		})
	}
}

// heldCurried: for pointer, slice and map typed values w (fresh deep copies of pool values) the
// curried function is made first, then everything reachable from w is overwritten in place, then the
// held function is compared with the binary form on the pool values.
func heldCurried(t reflect.Type, vals []reflect.Value, r *Rep, mk func(w reflect.Value) func(b reflect.Value) (int, int)) {
	switch t.Kind() {
	case reflect.Pointer, reflect.Slice, reflect.Map:
	default:
		return
	}
	for i, v := range vals {
		if i >= 6 {
			break
		}
		w := DeepClone(v)
		var call func(reflect.Value) (int, int)
		if pn := try(func() { call = mk(w) }); pn != "" {
			r.Fail("curried-held", "making the curried function panicked: %s", pn)
			return
		}
		if Scribble(w) == 0 {
			continue
		}
		for j, b := range vals {
			if j >= 6 {
				break
			}
			var held, now int
			if pn := try(func() { held, now = call(b) }); pn != "" {
				r.Fail("curried-held", "panicked after the argument was changed in place: %s", pn)
				return
			}
			if held != now {
				r.Fail("curried-held", "the curried function was made, then its argument was changed in place: held function=%d, binary form on the changed argument=%d\n argument now=%s\n other=%s", held, now, show(w), show(b))
			} else {
				r.Ok("curried-held")
			}
		}
	}
}

// ---------------------------------------------------------------------------------------------
// C04: derived Hash is a function of the value that respects (derived) Equal

func monC04(o *TypeOps, c Config, r *Rep) {
	if o.Hash == nil || o.Equal == nil {
		r.Res.Skipped = "no Hash/Equal"
		return
	}
	pl := makePool(o, c, 0)
	hash := func(a reflect.Value) (uint64, bool) {
		var h uint64
		if pn := try(func() { h = o.Hash(a.Interface()) }); pn != "" {
			r.Fail("panic", "deriveHash panicked: %s\n a=%s", pn, show(a))
			return 0, false
		}
		return h, true
	}
	respects := func(class string, a, b reflect.Value) {
		eq, pn := callEqual(o, a, b)
		if pn != "" || !eq {
			r.Res.Classes[class+"/not-equal"]++
			return
		}
		ha, ok1 := hash(a)
		hb, ok2 := hash(b)
		if !ok1 || !ok2 {
			return
		}
		if ha != hb {
			r.Fail(class, "derived Equal(a,b)=true but hash(a)=%d != hash(b)=%d\n a=%s\n b=%s", ha, hb, CanonExact(a), CanonExact(b))
		} else {
			r.Ok(class)
		}
	}
	var table []string
	for i, v := range pl.vals {
		h1, ok := hash(v)
		if !ok {
			continue
		}
		for k := 0; k < 8; k++ { // repeatability within the process (map iteration order re-randomised per range)
			h2, _ := hash(v)
			if h2 != h1 {
				r.Fail("repeat", "two calls on the same value returned %d and %d\n a=%s", h1, h2, show(v))
				break
			}
		}
		r.Ok("repeat")
		table = append(table, fmt.Sprintf("%d:%x", i, h1))
		for j, w := range pl.vals {
			if i < j {
				respects("pool-pair", v, w)
			}
		}
		respects("equal-fresh", v, DeepClone(v))
		respects("equal-respared", v, Respare(v))
		if z, ok := FlipZeros(v); ok {
			respects("pm-zero", v, z)
		}
		for _, mu := range Mutants(v, c.MaxMut) {
			respects("mutant:"+mu.Class, v, mu.V) // only counts when derived Equal ignores the mutation
		}
	}
	pl.unchanged(r, "deriveHash")
	r.Res.Extra = map[string]any{"hashes": table}
}

// ---------------------------------------------------------------------------------------------
// C05: DeepCopy / Clone produce an equal, fully independent copy

func monC05(o *TypeOps, c Config, r *Rep) {
	if o.DeepCopy == nil && o.Clone == nil {
		r.Res.Skipped = "no DeepCopy/Clone"
		return
	}
	g := NewGen(itemSeed(c.Seed, o.ID))
	srcs := g.Pool(o.T, c.PoolN)
	gd := NewGen(itemSeed(c.Seed+7919, o.ID))
	gd.NoShare = true
	gd.NaNKeys = true // prior destination contents are arbitrary: a map there may hold a NaN key
	kind := o.T.Kind()

	// independence of two values a (copy) and b (original), after the copy was made
	independent := func(class string, cp, orig reflect.Value, mk func() (reflect.Value, reflect.Value)) {
		if ov := Overlap(Reach(cp), Reach(orig)); ov != "" {
			r.Fail(class+"/shares-memory", "copy and source share memory: %s\n src=%s", ov, show(orig))
		} else {
			r.Ok(class + "/disjoint")
		}
		// behavioural: scribble over everything reachable from the copy, the source must not change
		before := CanonExact(orig)
		w := Scribble(cp)
		if after := CanonExact(orig); after != before {
			r.Fail(class+"/write-through-copy", "after %d in-place writes through the copy the source changed\n before=%s\n after =%s", w, before, after)
		} else {
			r.Ok(class + "/write-through-copy")
		}
		// and the converse on a fresh copy
		cp2, orig2 := mk()
		if !cp2.IsValid() {
			return
		}
		before = CanonExact(cp2)
		w = Scribble(orig2)
		if after := CanonExact(cp2); after != before {
			r.Fail(class+"/write-through-source", "after %d in-place writes through the source the copy changed\n before=%s\n after =%s", w, before, after)
		} else {
			r.Ok(class + "/write-through-source")
		}
	}

	if o.Clone != nil {
		for _, s := range srcs {
			mk := func() (reflect.Value, reflect.Value) {
				src := DeepCloneShared(s)
				var out any
				if pn := try(func() { out = o.Clone(src.Interface()) }); pn != "" {
					r.Fail("clone/panic", "deriveClone panicked: %s\n src=%s", pn, show(src))
					return reflect.Value{}, reflect.Value{}
				}
				return root(out, o.T), src
			}
			before := CanonExact(s)
			cp, src := mk()
			if !cp.IsValid() {
				continue
			}
			if CanonExact(src) != before {
				r.Fail("clone/source-modified", "deriveClone modified its source\n before=%s\n after =%s", before, CanonExact(src))
			}
			if !RefEqual(cp, src) || CanonExact(cp) != CanonExact(src) {
				r.Fail("clone/not-equal", "clone differs from source\n src  =%s\n clone=%s", CanonExact(src), CanonExact(cp))
				continue
			}
			r.Ok("clone/equal")
			independent("clone", cp, src, mk)
		}
	}
	if o.DeepCopy == nil {
		return
	}
	modes := []Mode{ModeZero, ModeEmpty, ModeFull, ModeNilDeep, ModeRandom, ModeRandom, ModeRandom}
	for si, s0 := range srcs {
		if kind == reflect.Pointer && s0.IsNil() {
			continue // deriveDeepCopy(dst, src *T) requires non-nil pointers
		}
		for mi, m := range modes {
			class := fmt.Sprintf("deepcopy/%s/dst-%s", kind, modeName(m))
			mk := func() (reflect.Value, reflect.Value) {
				src := DeepCloneShared(s0)
				var dst reflect.Value
				gd.R.Seed(itemSeed(c.Seed+int64(si*100+mi), o.ID))
				switch kind {
				case reflect.Pointer:
					dst = reflect.New(o.T).Elem()
					p := reflect.New(o.T.Elem())
					pv := gd.Value(o.T.Elem(), m)
					p.Elem().Set(pv)
					dst.Set(p)
				case reflect.Slice:
					dst = reflect.New(o.T).Elem()
					sl := reflect.MakeSlice(o.T, src.Len(), src.Len()+gd.R.Intn(3))
					for i := 0; i < src.Len(); i++ {
						sl.Index(i).Set(gd.Value(o.T.Elem(), m))
					}
					dst.Set(sl)
				case reflect.Map:
					dst = reflect.New(o.T).Elem()
					dst.Set(reflect.MakeMap(o.T))
				default:
					return reflect.Value{}, reflect.Value{}
				}
				if ov := Overlap(Reach(dst), Reach(src)); ov != "" {
					panic("monitor precondition: prior destination shares memory with source: " + ov)
				}
				if pn := try(func() { o.DeepCopy(dst.Interface(), src.Interface()) }); pn != "" {
					r.Fail(class+"/panic", "deriveDeepCopy panicked: %s\n src=%s\n prior dst=%s", pn, show(src), modeName(m))
					return reflect.Value{}, reflect.Value{}
				}
				return dst, src
			}
			before := CanonExact(s0)
			dst, src := mk()
			if !dst.IsValid() {
				continue
			}
			if CanonExact(src) != before {
				r.Fail(class+"/source-modified", "deriveDeepCopy modified its source\n before=%s\n after =%s", before, CanonExact(src))
			}
			eq := false
			switch kind {
			case reflect.Pointer:
				eq = CanonExact(dst) == CanonExact(src) && RefEqual(dst, src)
			case reflect.Slice:
				// equal length by construction; nil-ness of the top-level slice cannot be transferred by value
				eq = dst.Len() == src.Len()
				for i := 0; eq && i < src.Len(); i++ {
					eq = CanonExact(dst.Index(i)) == CanonExact(src.Index(i))
				}
			case reflect.Map:
				if src.IsNil() {
					eq = dst.Len() == 0
				} else {
					eq = CanonExact(dst) == CanonExact(src)
				}
			}
			if !eq {
				r.Fail(class+"/not-equal", "destination differs from source after deriveDeepCopy\n src=%s\n dst=%s", CanonExact(src), CanonExact(dst))
				continue
			}
			r.Ok(class + "/equal")
			independent(class, dst, src, mk)
		}
	}
}

func modeName(m Mode) string {
	return [...]string{"random", "zero", "empty", "full", "nildeep", "big"}[m]
}

// DeepCloneShared clones a value preserving internal sharing (DAG shape): pointers that were
// identical in the original are identical in the clone.
func DeepCloneShared(v reflect.Value) reflect.Value {
	dst := reflect.New(v.Type()).Elem()
	cloneShared(dst, addressable(v), map[uintptr]reflect.Value{}, 0)
	return dst
}

func cloneShared(dst, src reflect.Value, memo map[uintptr]reflect.Value, depth int) {
	switch src.Kind() {
	case reflect.Pointer:
		if src.IsNil() {
			return
		}
		if p, ok := memo[src.Pointer()]; ok && p.Type() == src.Type() {
			dst.Set(p)
			return
		}
		p := reflect.New(src.Type().Elem())
		memo[src.Pointer()] = p
		cloneShared(p.Elem(), clean(src.Elem()), memo, depth+1)
		dst.Set(p)
	case reflect.Slice:
		if src.IsNil() {
			return
		}
		s := reflect.MakeSlice(src.Type(), src.Len(), src.Cap())
		for i := 0; i < src.Len(); i++ {
			cloneShared(s.Index(i), clean(src.Index(i)), memo, depth+1)
		}
		dst.Set(s)
	case reflect.Array:
		for i := 0; i < src.Len(); i++ {
			cloneShared(dst.Index(i), clean(src.Index(i)), memo, depth+1)
		}
	case reflect.Map:
		if src.IsNil() {
			return
		}
		m := reflect.MakeMapWithSize(src.Type(), src.Len())
		it := src.MapRange()
		for it.Next() {
			k := reflect.New(src.Type().Key()).Elem()
			cloneShared(k, addressable(it.Key()), memo, depth+1)
			e := reflect.New(src.Type().Elem()).Elem()
			cloneShared(e, addressable(it.Value()), memo, depth+1)
			m.SetMapIndex(k, e)
		}
		dst.Set(m)
	case reflect.Struct:
		for i := 0; i < src.NumField(); i++ {
			cloneShared(field(dst, i), field(src, i), memo, depth+1)
		}
	default:
		dst.Set(src)
	}
}

// ---------------------------------------------------------------------------------------------
// C06 (stage 1): print GoString text and canonical encoding of every pool value; the driver
// assembles, compiles and runs the second-stage program.

func monC06(o *TypeOps, c Config, r *Rep) {
	if o.GoString == nil {
		r.Res.Skipped = "no GoString"
		return
	}
	pl := makePool(o, c, 0)
	var recs []map[string]string
	for _, v := range pl.vals {
		var s string
		if pn := try(func() { s = o.GoString(v.Interface()) }); pn != "" {
			r.Fail("panic", "deriveGoString panicked: %s\n a=%s", pn, show(v))
			continue
		}
		r.Ok("stage1")
		recs = append(recs, map[string]string{"text": s, "canon": Canon(v)})
	}
	pl.unchanged(r, "deriveGoString")
	r.Res.Extra = map[string]any{"records": recs}
}

// SharedViews returns pairs (a, b) of values that are deep copies of v except that at one slice
// position (len >= 2, outside maps) b's slice is a's slice re-sliced one element shorter: both
// share the backing array and the first element, but differ in length.
func SharedViews(v reflect.Value, max int) [][2]reflect.Value {
	var out [][2]reflect.Value
	for target := 0; target < max; target++ {
		a := DeepClone(v)
		b := DeepClone(a)
		ctr := 0
		if !shareAt(a, b, &ctr, target, 0) {
			break
		}
		out = append(out, [2]reflect.Value{a, b})
	}
	return out
}

func shareAt(a, b reflect.Value, ctr *int, target, depth int) bool {
	if depth > 100 {
		return false
	}
	switch a.Kind() {
	case reflect.Pointer:
		if a.IsNil() || b.IsNil() {
			return false
		}
		return shareAt(clean(a.Elem()), clean(b.Elem()), ctr, target, depth+1)
	case reflect.Slice:
		if a.Len() >= 2 && a.Len() == b.Len() {
			if *ctr == target {
				b.Set(a.Slice(0, a.Len()-1))
				return true
			}
			*ctr++
		}
		for i := 0; i < a.Len() && i < b.Len(); i++ {
			if shareAt(clean(a.Index(i)), clean(b.Index(i)), ctr, target, depth+1) {
				return true
			}
		}
	case reflect.Array:
		for i := 0; i < a.Len(); i++ {
			if shareAt(clean(a.Index(i)), clean(b.Index(i)), ctr, target, depth+1) {
				return true
			}
		}
	case reflect.Struct:
		for i := 0; i < a.NumField(); i++ {
			if shareAt(field(a, i), field(b, i), ctr, target, depth+1) {
				return true
			}
		}
	}
	return false
}
