package mon

import (
	"math"
	"reflect"
	"sort"
	"strconv"
	"strings"
)

// Canon is an injective (per static type) canonical text encoding of a value: nil-ness and
// lengths of every container, map entries sorted by encoded key, strings byte-exact, floats by
// bit pattern with -0 normalised to +0 (Go's == and every derived function identify them).
// CanonExact keeps the sign of zero.
func Canon(v reflect.Value) string {
	var sb strings.Builder
	canon(&sb, addressable(v), false, 0)
	return sb.String()
}
func CanonExact(v reflect.Value) string {
	var sb strings.Builder
	canon(&sb, addressable(v), true, 0)
	return sb.String()
}

// CanonAny encodes an interface value of static type t.
func CanonAny(x any, t reflect.Type) string { return Canon(root(x, t)) }

func fbits(f float64, exact bool, bits int) string {
	if f == 0 && !exact {
		f = 0
	}
	if bits == 32 {
		return "f" + strconv.FormatUint(uint64(math.Float32bits(float32(f))), 16)
	}
	return "f" + strconv.FormatUint(math.Float64bits(f), 16)
}

func canon(sb *strings.Builder, v reflect.Value, exact bool, depth int) {
	if depth > 200 {
		sb.WriteString("<deep>")
		return
	}
	switch v.Kind() {
	case reflect.Bool:
		if v.Bool() {
			sb.WriteString("T")
		} else {
			sb.WriteString("F")
		}
	case reflect.Int, reflect.Int8, reflect.Int16, reflect.Int32, reflect.Int64:
		sb.WriteString(strconv.FormatInt(v.Int(), 10))
	case reflect.Uint, reflect.Uint8, reflect.Uint16, reflect.Uint32, reflect.Uint64, reflect.Uintptr:
		sb.WriteString("u" + strconv.FormatUint(v.Uint(), 10))
	case reflect.Float32:
		sb.WriteString(fbits(v.Float(), exact, 32))
	case reflect.Float64:
		sb.WriteString(fbits(v.Float(), exact, 64))
	case reflect.Complex64:
		c := v.Complex()
		sb.WriteString("c(" + fbits(real(c), exact, 32) + "," + fbits(imag(c), exact, 32) + ")")
	case reflect.Complex128:
		c := v.Complex()
		sb.WriteString("c(" + fbits(real(c), exact, 64) + "," + fbits(imag(c), exact, 64) + ")")
	case reflect.String:
		sb.WriteString(strconv.Quote(v.String()))
	case reflect.Pointer:
		if v.IsNil() {
			sb.WriteString("nil")
			return
		}
		sb.WriteString("&")
		canon(sb, clean(v.Elem()), exact, depth+1)
	case reflect.Slice:
		if v.IsNil() {
			sb.WriteString("nil")
			return
		}
		sb.WriteString("[" + strconv.Itoa(v.Len()) + ":")
		for i := 0; i < v.Len(); i++ {
			if i > 0 {
				sb.WriteString(",")
			}
			canon(sb, clean(v.Index(i)), exact, depth+1)
		}
		sb.WriteString("]")
	case reflect.Array:
		sb.WriteString("[")
		for i := 0; i < v.Len(); i++ {
			if i > 0 {
				sb.WriteString(",")
			}
			canon(sb, clean(v.Index(i)), exact, depth+1)
		}
		sb.WriteString("]")
	case reflect.Map:
		if v.IsNil() {
			sb.WriteString("nil")
			return
		}
		ents := make([]string, 0, v.Len())
		it := v.MapRange()
		for it.Next() {
			var e strings.Builder
			canon(&e, addressable(it.Key()), exact, depth+1)
			e.WriteString("=>")
			canon(&e, addressable(it.Value()), exact, depth+1)
			ents = append(ents, e.String())
		}
		sort.Strings(ents)
		sb.WriteString("{" + strconv.Itoa(len(ents)) + ":" + strings.Join(ents, ",") + "}")
	case reflect.Struct:
		sb.WriteString("(")
		for i := 0; i < v.NumField(); i++ {
			if i > 0 {
				sb.WriteString(";")
			}
			if v.Type().Field(i).Name == "_" {
				sb.WriteString("_") // blank fields are not part of the value
				continue
			}
			canon(sb, field(v, i), exact, depth+1)
		}
		sb.WriteString(")")
	case reflect.Interface:
		if v.IsNil() {
			sb.WriteString("nil")
			return
		}
		sb.WriteString("<" + v.Elem().Type().String() + ">")
		canon(sb, addressable(v.Elem()), exact, depth+1)
	case reflect.Chan, reflect.Func, reflect.UnsafePointer:
		if v.IsNil() {
			sb.WriteString("nil")
		} else {
			sb.WriteString("@" + strconv.FormatUint(uint64(v.Pointer()), 16))
		}
	default:
		sb.WriteString("?")
	}
}

// SortedKeys returns the keys of map v ordered by their canonical encoding.
func SortedKeys(v reflect.Value) []reflect.Value {
	ks := v.MapKeys()
	cs := make([]string, len(ks))
	for i, k := range ks {
		cs[i] = Canon(k)
	}
	idx := make([]int, len(ks))
	for i := range idx {
		idx[i] = i
	}
	sort.Slice(idx, func(a, b int) bool { return cs[idx[a]] < cs[idx[b]] })
	out := make([]reflect.Value, len(ks))
	for i, j := range idx {
		out[i] = ks[j]
	}
	return out
}
