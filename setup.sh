#!/bin/sh
# Builds bin/vcheck offline from files on disk only.
set -e
cd "$(dirname "$0")"
. ./env.sh
mkdir -p bin evidence replays
go build -o bin/vcheck ./cmd/vcheck
echo "setup ok: $(go version)"
